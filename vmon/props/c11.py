"""C11 - map files round-trip voxels and axis order across MRC, REC and EM.

Monitors (DESIGN.md 4/C11):
  write_bytes         post(cryomap.write), every call incl. those made by em2mrc/mrc2em/invert_contrast: the written
                      file, parsed from bytes with struct, has header dims = (x,y,z) shape of the array handed over,
                      voxel (i,j,k) at linear index i + nx*(j + ny*k), MRC axes words 1,2,3, values equal to the array
                      (float64 narrowed to float32 and stored as float32; int8/int16: any on-disk type holding the
                      same values).  transpose=False: the array is taken to be in file order (z,y,x).
  read_matches_bytes  post(cryomap.read): the returned array equals the independently parsed bytes indexed [x,y,z]
                      (transposed back for transpose=False, cast for a value-preserving data_type).
  roundtrip           driver: write(arr, p, opts) then read(p, opts) returns the (x,y,z) shape and the values.
  raw_read            driver: a file produced by the independent raw writers (never by cryoCAT) is read back as the
                      array it was made from - catches a transposition applied consistently in read and write.
  convert_voxels      driver: em2mrc / mrc2em output (default and explicit names) parsed from bytes = source voxels,
                      negated when invert=True.
  reread_after_edit   driver (history): read a file, overwrite the returned array in place (*= -1, fill), read the SAME untouched
                      file again with the same and with other options, and convert it with em2mrc / mrc2em: every later
                      read and every converter output must still equal the bytes on disk (also judged by
                      read_matches_bytes / convert_voxels).
  read_results_independent  witness: two successive read() results of one file do not share memory (judged only when the
                      first result is writeable - a shared read-only array could not be edited).
  rewrite_history     driver (history): write(A, p); edit the caller-owned A in place; write(A, p) again (same path, same size);
                      read / convert after every step - each result must hold the values A had when it was written.
  overwrite_refusal   driver: with overwrite=False and an existing output the conversion raises and the file keeps its
                      bytes - also after a second refused call.
"""
import itertools
import os
import shutil

import numpy as np

from vmon import monitors
from vmon.oracles import c11_oracle as orc

PROP = "C11"
RULE = ("cases = generated 3-D arrays with independent axis sizes in 1..48 (stratified: generic non-cubic, degenerate axes, "
        "size-48 edges, two equal axes, float64 values that float32 cannot hold, NaN/inf/subnormals, integer extremes, "
        "memory layouts, transpose/data_type options, raw files from an independent writer, conversions with invert / "
        "default and explicit names / overwrite refusal; every spelling of the four data_type values x extension x transpose, "
        "voxel counts 2**k-1, 2**k, 2**k+1 and the largest volumes, float32 representability boundaries, exact duplicate slabs, "
        "names with extension-like tokens before the real extension, write-edit-rewrite histories, relative names after chdir "
        "into fresh directories (bare, ./, sub-directory, ../, a new cwd before every step) with absolute or relative inputs and "
        "explicit relative outputs, stems ending in the extension's letters and paths with [ ] * ? spaces non-ASCII, flags given "
        "as numpy bools / ints / 0-d arrays / float zeros, constant / all-zero / zero-stride volumes, read() and converter "
        "outputs fed into write() and the converters); each case is written to .mrc, .rec and .em; non-trivial = "
        "at least 2 voxels, not constant, and not a cube (an axis permutation changes the shape or the values); "
        "distinct by digest of (shape, dtype, value class, layout, options, conversion scenario, first voxels)")
ASSUMPTIONS = [
    "MRC2014 little-endian layout: int32 nx,ny,nz,mode at bytes 0..16, mapc,mapr,maps at 64..76, nsymbt at 92, data from "
    "1024+nsymbt with x fastest; mode 0/1/2 = int8/int16/float32",
    "EM layout: byte0 machine code 6, byte3 dtype code (1 int8, 2 int16, 5 float32), int32 dims at 4..16, data from 512, x fastest",
    "'same voxel values' = numeric equality (NaN equals NaN, -0.0 equals 0.0); for int8/int16 the on-disk type and the "
    "dtype returned by read are free as long as every value is identical; float64 must be stored as float32(value)",
    "transpose=False means the caller's array is in file order (z,y,x): header nx = shape[2]",
    "data_type options are judged only when the cast keeps every voxel (or is the stated float64->float32 narrowing); "
    "other casts, dtypes outside the four listed, sizes outside 1..48, .st/.ali names: out of domain, counted not judged",
    "a raw MRC file with space group 0 and nz = 1 is a single 2-D image for mrcfile (cryomap.read raises on it): not a "
    "3-D array, fed only with space group 1 and otherwise counted out of domain",
    "arrays in non-native byte order ('>f4') are outside the four listed dtypes (observed: written byte-garbled to .em) - not generated",
    "refusal to overwrite = any exception + output bytes unchanged",
    "relative file names are judged at the path relative to the working directory at the time of the call",
    "flags (transpose, invert, overwrite) given as any scalar with the same truth value count as on/off",
]

CLASSES = ["generic", "degenerate", "edge48", "two_equal_axes", "f64_narrow", "special_floats", "int_extremes", "layouts",
           "no_transpose", "data_type_opt", "raw_reader", "raw_reader_variants", "em2mrc", "mrc2em", "overwrite_refusal",
           "int_min_invert", "read_edit_reread", "data_type_grid", "block_boundaries", "repr_boundaries", "name_tokens",
           "write_mutate_rewrite", "relative_paths", "odd_paths", "flag_kinds", "constant_values", "anchor_chain"]
KEY_INTMIN = "int-min-negation-wraps"
DTYPES = [np.float32, np.float64, np.int16, np.int8]
STEMS = ["vol", "emd_1234", "membrane", "a.em", "mrc_avg", "x.mrc", "tomo.rec", "with space", "semrc.em.mrc", "stem"]
TOKEN_STEMS = ["ts01.rec", "vol.em", "vol.mrc", "a.em.rec", "x.mrc.em", "tilt.st", "stack.ali", "map.rec.mrc", "b.em.em", "c.mrc.mrc",
               "emrec.mrc.rec.em", "t.1", "run.em.2"]
TOKEN_DIRS = ["session.mrc", "run.em", "data.rec", "x.em.mrc", "plain"]
RT_STEMS = ["rt", "ts01.rec", "vol.em", "x.mrc", "tilt.st", "a.rec.mrc.em", "stack.ali", "b.em.rec"]
PATH_STEMS = ["ribosome", "frame", "them", "em", "mrc", "rec", "map [1]", "a*b", "q?", "\u00fcn\u00ef c\u00f8d\u00e9", "\u65e5\u672c\u8a9e", "x'y", "#h", "%d",
              "-dash", "..dots", "norm", "cmrc", "theme.em", "mem.mrc"]
PATH_DIRS = ["dir [x] \u00fc", os.path.join("sub dir", "deeper"), "glob*?", "d.em", "plain2"]
REL_MODES = ["bare", "dot", "sub", "up", "hop"]
TRUE_KINDS = [True, np.True_, 1, np.int64(1), np.array(True), np.bool_(True)]
FALSE_KINDS = [False, np.False_, 0, np.int64(0), np.array(False), 0.0, np.float64(0), -0.0]
READ_SPELLINGS = {"float64": orc.SPELLINGS["float64"], "float32": orc.SPELLINGS["float32"], "int16": orc.SPELLINGS["int16"]}


def plan(tier):
    if tier == "quick":
        return dict(n_cases=50 * len(CLASSES), shards=6, classes=CLASSES, timeout_s=600,
                    min_evals={"write_bytes": 5500, "read_matches_bytes": 10000, "roundtrip": 4500, "raw_read": 2200,
                               "convert_voxels": 1300, "overwrite_refusal": 400,
                               "reread_after_edit": 2200, "read_results_independent": 1300, "rewrite_history": 1800, "anchor_chain": 300},
                    min_anchor_calls={"cryomap.em2mrc": 300, "cryomap.mrc2em": 300}, min_known={"int-min-negation-wraps": 10})
    return dict(n_cases=2000 * len(CLASSES), shards=16, classes=CLASSES, timeout_s=3000,
                min_evals={"write_bytes": 120000, "read_matches_bytes": 160000, "roundtrip": 90000, "raw_read": 36000,
                           "convert_voxels": 36000, "overwrite_refusal": 5500,
                           "reread_after_edit": 60000, "read_results_independent": 20000, "rewrite_history": 60000, "anchor_chain": 12000},
                min_anchor_calls={"cryomap.em2mrc": 12000, "cryomap.mrc2em": 12000}, min_known={"int-min-negation-wraps": 200})


# ---- call monitors ------------------------------------------------------------------------------
def _w_applicable(A):
    fn = A["file_name"]
    if not isinstance(fn, str) or orc.ext_of(fn) is None:
        return False
    return orc.expected_on_disk(A["data_to_write"], bool(A["transpose"]), A["data_type"]) is not None


def _w_snapshot(A):
    arr = A["data_to_write"]
    eff = arr if A["data_type"] is None else orc.exact_cast(arr, A["data_type"])
    return {"exp": orc.expected_on_disk(arr, bool(A["transpose"]), A["data_type"]), "f64": eff.dtype == np.float64}


def _w_post(ctx, A, OLD, result):
    ok, w = orc.check_written(A["file_name"], OLD["exp"], OLD["f64"])
    if not ok:
        w = dict(w, transpose=bool(A["transpose"]), data_type=str(A["data_type"]), in_dtype=str(A["data_to_write"].dtype),
                 in_shape=list(A["data_to_write"].shape))
    ctx.check("write_bytes", ok, w)


def _r_expect(A):
    """expected return value of read(...) from the bytes alone, or None if the call is outside the quantifier."""
    p = A["input_map"]
    if not isinstance(p, str) or orc.ext_of(p) is None or not os.path.isfile(p):
        return None
    P = orc.parse(p)
    if "error" in P or not orc.shape_in_quantifier(P["dims"]) or P["dtype"] not in orc.DISK_DTYPES:
        return None
    if orc.ext_of(p) != ".em":
        if tuple(P["axes"]) != (1, 2, 3):
            return None
        if P["dims"][2] == 1 and orc.mrc_ispg(p) == 0:      # single image, not a volume (see ASSUMPTIONS)
            return None
        if 401 <= (orc.mrc_ispg(p) or 0) <= 630:            # volume stacks: 4-D for mrcfile
            return None
    exp = P["data"]
    if not A["transpose"]:
        exp = exp.transpose(2, 1, 0)
    if A["data_type"] is not None:
        exp = orc.exact_cast(exp, A["data_type"])
        if exp is None:
            return None
    return np.array(exp, copy=True)


def _r_applicable(A):
    return _r_expect(A) is not None


def _r_snapshot(A):
    return _r_expect(A)


def _r_post(ctx, A, exp, result):
    if not isinstance(result, np.ndarray):
        ctx.check("read_matches_bytes", False, {"file": os.path.basename(A["input_map"]), "returned": type(result).__name__})
        return
    ok = orc.values_equal(result, exp)
    ctx.check("read_matches_bytes", ok, None if ok else dict(orc.explain(result, exp), file=os.path.basename(A["input_map"]),
                                                               transpose=bool(A["transpose"]), data_type=str(A["data_type"])))


def setup(ctx):
    from cryocat import cryomap
    ctx.cmap = cryomap
    fw = monitors.wrap(ctx, cryomap, "write", "write_bytes", _w_post, _w_applicable, _w_snapshot)
    fr = monitors.wrap(ctx, cryomap, "read", "read_matches_bytes", _r_post, _r_applicable, _r_snapshot)
    ctx.declare("roundtrip", "raw_read", "convert_voxels", "overwrite_refusal", "reread_after_edit", "read_results_independent", "rewrite_history", "anchor_chain")
    monitors.trace(ctx, [
        ("cryomap.read", fr, {"mrc_or_rec": "mrcfile.open", "em": "emfile.read", "bad_extension": "is neither em or mrc",
                              "transpose": "data.transpose(2, 1, 0)", "ndarray_input": "np.array(input_map)",
                              "bad_input": "must be path to valid file", "cast": "data.astype(data_type)"}),
        ("cryomap.write", fw, {"cast": "astype(data_type)", "transpose": "data_to_write.transpose(2, 1, 0)",
                               "narrow_f64": "astype(np.float32)", "mrc_or_rec": "mrcfile.write", "em": "emfile.write",
                               "bad_extension": "has to end with"}),
        ("cryomap.em2mrc", cryomap.em2mrc, {"invert": "* (-1)", "default_name": "map_name[:-2]", "bad_output": "must end with .mrc",
                                            "not_str": "must be a string", "not_em": "must be .em file"}),
        ("cryomap.mrc2em", cryomap.mrc2em, {"invert": "* (-1)", "default_name": "map_name[:-3]", "bad_output": "is not .em file",
                                            "not_str": "is not a string", "not_mrc": "is not .mrc file"}),
        ("cryomap.invert_contrast", cryomap.invert_contrast, {"writes": "write(inverted_map", "f64_to_single": "data_type = np.single"}),
    ])


# ---- generator ----------------------------------------------------------------------------------
def _shape(rng, cls):
    def noncubic():
        while True:
            s = tuple(int(v) for v in rng.integers(1, orc.HI + 1, 3))
            if len(set(s)) == 3:
                return s
    if cls == "degenerate":
        n, m = int(rng.integers(2, orc.HI + 1)), int(rng.integers(2, orc.HI + 1))
        pool = [(1, 1, 1), (1, n, 1), (n, 1, 1), (1, 1, n), (n, m, 1), (1, n, m), (n, 1, m), (1, n, n), (n, n, 1), (n, 1, n), (2, 1, 1), (1, 1, 2)]
        return pool[int(rng.integers(0, len(pool)))]
    if cls == "edge48":
        s = list(noncubic())
        k = int(rng.integers(1, 4))
        for ax in rng.permutation(3)[:k]:
            s[int(ax)] = orc.HI
        if rng.random() < 0.3:
            s[int(rng.integers(0, 3))] = 1
        return tuple(s)
    if cls == "block_boundaries":
        sh = orc.BLOCK_SHAPES[int(rng.integers(0, len(orc.BLOCK_SHAPES)))]
        return tuple(int(v) for v in rng.permutation(sh))
    if cls == "two_equal_axes":
        a, b = (int(v) for v in rng.choice(np.arange(2, 31), 2, replace=False))
        return [(a, b, a), (a, a, b), (b, a, a)][int(rng.integers(0, 3))]
    if cls in ("generic", "raw_reader") and rng.random() < 0.08:
        a = int(rng.integers(2, 20))
        return (a, a, a)                       # cubes are inside the quantifier too (trivial for axis order only)
    s = noncubic()
    if rng.random() < 0.6:                     # keep most volumes small: cost is bounded by case count, not by size
        s = tuple(int(v) for v in rng.permutation([int(rng.integers(1, 9)), int(rng.integers(2, 20)), int(rng.integers(3, orc.HI + 1))]))
    return s


def gen(ctx, i, cls):
    rng = ctx.rng(i)
    shape = _shape(rng, cls)
    dtype = DTYPES[int(rng.integers(0, 4))]
    kind = ["normal", "ramp", "normal", "sparse"][int(rng.integers(0, 4))]
    layout = "C"
    wT = rT = True
    wdt = rdt = None
    if cls == "f64_narrow":
        dtype, kind = np.float64, "narrow"
    elif cls == "special_floats":
        dtype, kind = [np.float32, np.float64][int(rng.integers(0, 2))], "special"
    elif cls == "int_extremes":
        dtype, kind = [np.int16, np.int8][int(rng.integers(0, 2))], "int_ext"
    elif cls == "int_min_invert":
        dtype, kind = [np.int16, np.int8][i // len(CLASSES) % 2], "int_min"
    elif cls == "layouts":
        layout = ["F", "strided", "reversed", "transposed_view", "readonly", "swap12", "swap01_neg"][i // len(CLASSES) % 7]
    elif cls == "no_transpose":
        wT, rT = [(False, False), (False, True), (True, False)][i // len(CLASSES) % 3]
    if cls == "data_type_opt" or (cls in ("generic", "degenerate", "no_transpose") and rng.random() < 0.25):
        # value-preserving (or stated-narrowing) casts only; spelled in the ways users spell dtypes
        if np.dtype(dtype).kind == "f" and rng.random() < 0.5:
            kind = "smallint_floats"
        w_pool = {np.dtype(np.float32): [np.float32, "float32", np.single, np.float64, float],
                  np.dtype(np.float64): [np.float32, np.float64, "f4", float, np.dtype("float32")],
                  np.dtype(np.int16): [np.int16, np.float32, "int16", np.float64, "f4"],
                  np.dtype(np.int8): [np.int8, np.int16, np.float32, "i2", np.dtype("int16"), float]}[np.dtype(dtype)]
        if kind == "smallint_floats":
            w_pool = w_pool + [np.int16, np.int8, "int8", "i2"]
        wdt = w_pool[int(rng.integers(0, len(w_pool)))] if rng.random() < 0.8 else None
        rdt = [None, np.float64, float, "float64", np.float32][int(rng.integers(0, 5))]
    idx = i // len(CLASSES)
    arr = None
    if cls == "data_type_grid":
        tname, wdt = orc.ALL_SPELLINGS[(idx * 7 + int(rng.integers(0, 3))) % len(orc.ALL_SPELLINGS)]
        dtype = DTYPES[(idx + idx // 4) % 4]
        if tname == "int8" and rng.random() < 0.5:
            dtype = [np.int8, np.float32, np.float64, np.int16][idx % 4]
        wT, rT = bool(idx % 2), bool(idx // 2 % 2)
        arr = orc.values_for_cast(rng, shape, dtype, tname)
        kind = "cast_exact->" + tname
        stored = orc.narrowed(arr.astype(tname))
        ok_read = [t for t in READ_SPELLINGS if orc.exact_cast(stored, t) is not None]
        rt = ok_read[int(rng.integers(0, len(ok_read)))]
        rdt = [None, READ_SPELLINGS[rt][int(rng.integers(0, len(READ_SPELLINGS[rt])))]][int(rng.random() < 0.7)]
    elif cls == "repr_boundaries":
        dtype = [np.float64, np.float32, np.float64, np.int16][idx % 4]
        kind = "repr"
        if np.dtype(dtype).kind == "f":
            arr = orc.plant(rng, orc.make_values(rng, shape, dtype, "normal"), orc.REPR_F64 if dtype == np.float64 else orc.REPR_F32, frac=0.5)
        else:
            arr = orc.make_values(rng, shape, dtype, "int_ext")
            if arr.size:
                arr.flat[0] = np.iinfo(dtype).max
        if idx % 3 == 0:
            wdt = [float, "f8", "d", np.float64, np.dtype("float64"), "float64", np.float32, "f4"][idx // 3 % 8]
        wT, rT = bool(idx % 5), bool(idx % 7)
    elif cls == "block_boundaries":
        kind = ["ramp", "normal", "dup_slabs"][idx % 3]
        dtype = DTYPES[idx % 4]
        arr = orc.make_values(rng, shape, dtype, "ramp" if kind == "ramp" else "normal")
        if kind == "dup_slabs":
            arr = orc.duplicate_slabs(rng, arr)
        wT, rT = bool(idx % 4), bool(idx % 3)
        if idx % 4 == 1:
            wdt = [float, np.float32, "d", "float32"][idx // 4 % 4]
    elif cls == "write_mutate_rewrite" and idx % 3 == 0:
        kind = "dup_slabs"
    elif cls == "constant_values":
        kind = ["zeros", "constant", "zero_stride", "ones_mask", "one_hot"][idx % 5]
        dtype = DTYPES[(idx // 5) % 4]
        if kind == "zeros":
            arr = np.zeros(shape, dtype=dtype)
        elif kind == "constant":
            arr = np.full(shape, [7, -3, 1, 100][idx % 4], dtype=dtype)
        elif kind == "ones_mask":
            arr = np.ones(shape, dtype=dtype)
        elif kind == "one_hot":
            arr = np.zeros(shape, dtype=dtype)
            arr.flat[int(rng.integers(0, arr.size))] = 1
        else:
            arr = np.repeat(orc.make_values(rng, shape[:2] + (1,), dtype, "normal"), shape[2], axis=2)
            layout = "zero_stride"
        wT, rT = bool(idx % 3), bool(idx % 2)
    elif cls in ("anchor_chain", "relative_paths", "odd_paths", "flag_kinds") and idx % 4 == 3:
        layout = ["F", "swap12", "reversed", "swap01_neg", "strided"][idx // 4 % 5]
    if arr is not None:
        pass
    elif kind == "smallint_floats":
        arr = np.asarray(rng.integers(-120, 121, size=shape)).astype(dtype)
    elif kind == "dup_slabs":
        arr = orc.duplicate_slabs(rng, orc.make_values(rng, shape, dtype, "normal"))
    else:
        arr = orc.make_values(rng, shape, dtype, kind)
    if rdt is not None and np.dtype(rdt) == np.float32 and arr.dtype == np.float64 and wdt is None:
        pass                                     # narrowing happens on write anyway
    # conversion scenario (every case runs one conversion; four classes concentrate on it)
    direction = "em2mrc" if cls == "em2mrc" else "mrc2em" if cls == "mrc2em" else ["em2mrc", "mrc2em"][int(rng.integers(0, 2))]
    invert = bool(rng.integers(0, 2))
    if cls == "int_min_invert":
        invert = True
    elif cls == "int_extremes":
        invert = False                           # type minimum + inversion lives in its own class (open finding)
    conv = {"direction": direction, "invert": invert, "explicit": bool(rng.random() < 0.45),
            "stem": STEMS[int(rng.integers(0, len(STEMS)))], "src_by": ["raw", "cryomap.write"][int(rng.random() < 0.35)],
            "overwrite": [None, True, False][int(rng.integers(0, 3))], "preexisting": bool(rng.random() < 0.4),
            "sentinel": ["junk", "valid"][int(rng.integers(0, 2))], "positional": bool(rng.random() < 0.15)}
    conv["dir"] = "conv.dir"
    rt_stem, rt_dir = "rt", None
    if cls == "name_tokens" or rng.random() < 0.25:
        conv["stem"] = TOKEN_STEMS[(idx + int(rng.integers(0, 2))) % len(TOKEN_STEMS)] if cls == "name_tokens" else TOKEN_STEMS[int(rng.integers(0, len(TOKEN_STEMS)))]
        conv["dir"] = TOKEN_DIRS[(idx // 2) % len(TOKEN_DIRS)] if cls == "name_tokens" else TOKEN_DIRS[int(rng.integers(0, len(TOKEN_DIRS)))]
        rt_stem = RT_STEMS[idx % len(RT_STEMS)] if cls == "name_tokens" else RT_STEMS[int(rng.integers(0, len(RT_STEMS)))]
        rt_dir = [None, "session.mrc", "run.em", "data.rec"][(idx // 3) % 4] if cls == "name_tokens" else None
        if cls == "name_tokens":
            conv.update(explicit=bool(idx % 2), overwrite=[None, False, True, False][idx % 4], preexisting=bool(idx // 2 % 2))
    if cls == "odd_paths" or rng.random() < 0.12:
        conv["stem"] = PATH_STEMS[(idx * 3 + int(rng.integers(0, 3))) % len(PATH_STEMS)]
        conv["dir"] = PATH_DIRS[idx % len(PATH_DIRS)]
        rt_stem = PATH_STEMS[(idx * 3 + 1 + int(rng.integers(0, 2))) % len(PATH_STEMS)]
        rt_dir = [None] + PATH_DIRS
        rt_dir = rt_dir[(idx // 2) % len(rt_dir)]
    relmode = None
    if cls == "relative_paths":
        relmode = REL_MODES[idx % len(REL_MODES)]
        conv.update(explicit=bool(idx % 2 == 0 or idx % 5 == 0), overwrite=[None, False, True, False][idx // 2 % 4], preexisting=bool(idx // 2 % 2))
    elif i % 5 == 1:
        relmode = REL_MODES[(i // 5) % len(REL_MODES)]
    conv["src_abs"] = bool(relmode is not None and (idx + i) % 3 == 0)
    conv["out_subdir"] = bool(conv["explicit"] and (idx + i) % 4 < 2 and (relmode is not None or rng.random() < 0.2))
    flags = 0
    if cls == "flag_kinds" or i % 7 == 6:
        flags = 1 + idx % 40 if cls == "flag_kinds" else 1 + int(rng.integers(0, 40))
    if cls == "flag_kinds":
        wT, rT = bool(idx % 2), bool(idx // 2 % 2)
        conv.update(invert=bool(idx % 3 == 0) and np.dtype(arr.dtype).kind == "f", overwrite=[False, True, False, None][idx % 4], preexisting=bool(idx % 4 != 3))
    if cls == "overwrite_refusal":
        conv.update(overwrite=False, preexisting=True)
    raw = [{"ext": [".em", ".mrc", ".rec"][int(rng.integers(0, 3))], "ispg": None, "nsymbt": 0}]
    if cls == "raw_reader":
        raw = [{"ext": e, "ispg": None, "nsymbt": 0} for e in (".em", ".mrc", ".rec")]
    elif cls == "raw_reader_variants":
        raw = [{"ext": ".em", "ispg": None, "nsymbt": 0}] + [
            {"ext": e, "ispg": int(rng.choice([0, 1, 1, 4, 19])), "nsymbt": int(rng.choice([0, 4, 80, 1024, 12]))}
            for e in (".mrc", ".rec")]
    exts = [".mrc", ".rec", ".em"]
    case = {"i": i, "cls": cls, "arr": arr, "layout": layout, "wT": wT, "rT": rT, "wdt": wdt, "rdt": rdt, "exts": exts,
            "conv": conv, "raw": raw, "kind": kind, "positional": bool(rng.random() < 0.15),
            "refusals": i % 8 == 3, "invert_contrast": i % 6 == 1,
            "edit_reread": cls == "read_edit_reread" or i % 4 == 2, "rt_stem": rt_stem, "rt_dir": rt_dir,
            "rewrite": cls == "write_mutate_rewrite" or i % 6 == 5, "relmode": relmode, "flags": flags,
            "chain": cls == "anchor_chain" or i % 5 == 3}
    flat = arr.ravel()
    case["summary"] = {"shape_xyz": list(shape), "dtype": str(arr.dtype), "values": kind, "layout": layout,
                       "write": {"transpose": wT, "data_type": None if wdt is None else orc.spelling_repr(wdt)},
                       "read": {"transpose": rT, "data_type": None if rdt is None else orc.spelling_repr(rdt)}, "rt_name": [rt_dir, rt_stem],
                       "rewrite": case["rewrite"], "relmode": relmode, "flag_kind": flags, "chain": case["chain"],
                       "convert": conv, "raw": raw, "edit_reread": case["edit_reread"], "first_voxels": [repr(v) for v in flat[:4].tolist()]}
    return case


def nontrivial(case):
    a = case["arr"]
    if a.size < 2 or len(set(a.shape)) == 1:
        return False
    f = a.astype(np.float64).ravel()
    return bool(np.nanmin(f) != np.nanmax(f)) if not np.all(np.isnan(f)) else False


# ---- driver -------------------------------------------------------------------------------------
def _expected_back(disk_xyz, rT, rdt):
    exp = disk_xyz if rT else disk_xyz.transpose(2, 1, 0)
    if rdt is not None:
        exp = orc.exact_cast(exp, rdt)
    return exp


def _flag(case, value, salt=0):
    """the same truth value in another scalar kind (numpy bool, int, 0-d array, float zero ...) when the case asks for it."""
    k = case.get("flags", 0)
    if not k or value is None:
        return value
    pool = TRUE_KINDS if value else FALSE_KINDS
    return pool[(k + salt) % len(pool)]


def _mk(path):
    if path:
        os.makedirs(path, exist_ok=True)


def _roundtrips(ctx, case, d):
    cm = ctx.cmap
    arr = case["arr"]
    rng = ctx.rng(case["i"], 1)
    given = orc.with_layout(rng, arr, case["layout"])
    disk = orc.expected_on_disk(arr, case["wT"], case["wdt"])
    if disk is None:
        raise RuntimeError("generator produced an out-of-quantifier write: %r" % (case["summary"],))
    rd = d if not case.get("rt_dir") else os.path.join(d, case["rt_dir"])
    _mk(rd)
    fl = bool(case.get("flags"))
    for ext in case["exts"]:
        path = os.path.join(rd, case.get("rt_stem", "rt") + ext)
        if case["positional"]:
            ok, _ = ctx.call("write", cm.write, given, path, _flag(case, case["wT"]), case["wdt"])
        else:
            kw = {}
            if not case["wT"] or case["i"] % 5 == 0 or fl:
                kw["transpose"] = _flag(case, case["wT"])
            if case["wdt"] is not None:
                kw["data_type"] = case["wdt"]
            ok, _ = ctx.call("write", cm.write, given, path, **kw)
        if not ok:
            continue
        kw = {}
        if not case["rT"] or fl:
            kw["transpose"] = _flag(case, case["rT"], 1)
        if case["rdt"] is not None:
            kw["data_type"] = case["rdt"]
        ok, back = ctx.call("read", cm.read, path, **kw)
        if not ok:
            continue
        exp = _expected_back(disk, case["rT"], case["rdt"])
        if exp is None:
            ctx.ood("roundtrip")
            continue
        good = isinstance(back, np.ndarray) and orc.values_equal(back, exp)
        ctx.check("roundtrip", good, None if good else dict(orc.explain(np.asarray(back), exp), ext=ext, file=os.path.relpath(path, d),
                                                           write_transpose=case["wT"], read_transpose=case["rT"],
                                                           write_data_type=None if case["wdt"] is None else orc.spelling_repr(case["wdt"]),
                                                           read_data_type=None if case["rdt"] is None else orc.spelling_repr(case["rdt"]),
                                                           in_dtype=str(arr.dtype), layout=case["layout"]))
        if case.get("chain") and (case["cls"] == "anchor_chain" or ext == case["exts"][case["i"] // 5 % 3]):
            _anchor_chain(ctx, case, d, path, disk, ext)
        if case["edit_reread"] and (case["cls"] == "read_edit_reread" or ext == case["exts"][case["i"] // 4 % 3]):
            _edit_reread(ctx, case, d, path, back, kw)
        if case["invert_contrast"] and ext == case["exts"][case["i"] % 3]:
            # anchored workload: its inner read and write are judged by the call monitors; no verdict of its own
            try:
                src = case["arr"] if (case["arr"].dtype == np.float64 and case["i"] % 4 == 1) else path
                cm.invert_contrast(src, output_name=os.path.join(d, "inv" + [".em", ".mrc", ".rec"][case["i"] % 3]))
            except Exception:
                pass
            ctx.ood("workload:invert_contrast")


def _raw_reads(ctx, case, d):
    cm = ctx.cmap
    X = orc.narrowed(case["arr"])                 # what an on-disk float32/int16/int8 file can hold of the array
    for k, r in enumerate(case["raw"]):
        path = os.path.join(d, "raw%d%s" % (k, r["ext"]))
        ispg = r["ispg"]
        if r["ext"] != ".em" and X.shape[2] == 1 and ispg in (None, 0):
            ispg = 1                              # nz = 1 with space group 0 is a single image (ASSUMPTIONS)
        orc.raw_write(path, X, ispg=ispg, nsymbt=r["nsymbt"])
        kw = {}
        if not case["rT"] or case.get("flags"):
            kw["transpose"] = _flag(case, case["rT"], 2)
        if case["rdt"] is not None:
            kw["data_type"] = case["rdt"]
        ok, back = ctx.call("read(raw file)", cm.read, path, **kw)
        if not ok:
            continue
        exp = _expected_back(X, case["rT"], case["rdt"])
        if exp is None:
            ctx.ood("raw_read")
            continue
        good = isinstance(back, np.ndarray) and orc.values_equal(back, exp)
        ctx.check("raw_read", good, None if good else dict(orc.explain(np.asarray(back), exp), raw=r, read_transpose=case["rT"]))


def _negated(X):
    if X.dtype.kind == "i":
        return -X.astype(np.int64)
    return -X


def _intmin_wrap_only(out_xyz, X, invert):
    """mechanism classifier of the open finding: right shape, and every differing voxel is the integer type's minimum
    in the source and still that minimum in the output (negation wrapped around)."""
    if not invert or X.dtype.kind != "i" or out_xyz.shape != X.shape:
        return False
    lo = np.iinfo(X.dtype).min
    o, e = out_xyz.astype(np.float64), _negated(X).astype(np.float64)
    bad = o != e
    return bool(bad.any() and np.all(X[bad] == lo) and np.all(o[bad] == lo))


def _convert(ctx, case, d):
    cm = ctx.cmap
    c = case["conv"]
    f = getattr(cm, c["direction"])
    src_ext, out_ext = (".em", ".mrc") if c["direction"] == "em2mrc" else (".mrc", ".em")
    X = orc.narrowed(case["arr"])
    sub = os.path.join(d, "cv", c.get("dir", "conv.dir"))       # never the folder of the round-trip files
    os.makedirs(sub, exist_ok=True)
    src = os.path.join(sub, c["stem"] + src_ext)
    if c["src_by"] == "raw":
        orc.raw_write(src, X, ispg=1 if src_ext != ".em" else None)
    else:
        ok, _ = ctx.call("write(source)", cm.write, case["arr"], src)
        if not ok:
            return
    if c.get("out_subdir") and c["explicit"]:
        od = os.path.join(d, "converted", "o.%d" % (case["i"] % 3))     # an explicit name with its own (existing) sub-directory
        _mk(od)
        out = os.path.join(od, "out_" + c["stem"] + out_ext)
    else:
        out = os.path.join(d, "out_" + c["stem"] + out_ext) if c["explicit"] else src[:-len(src_ext)] + out_ext
    if c.get("src_abs"):
        src = os.path.abspath(src)                 # input with an absolute folder, output name still as chosen above
        if not c["explicit"]:
            out = src[:-len(src_ext)] + out_ext
    sentinel = None
    if c["preexisting"]:
        if c["sentinel"] == "valid":
            orc.raw_write(out, np.full((2, 3, 1), 7, dtype=np.float32) if out_ext == ".em" else np.full((3, 2, 2), 7, dtype=np.float32), ispg=1 if out_ext != ".em" else None)
        else:
            with open(out, "wb") as fh:
                fh.write(b"sentinel-not-a-map" * 9)
        sentinel = open(out, "rb").read()
    kw = {}
    if c["invert"] or case.get("flags"):
        kw["invert"] = _flag(case, c["invert"], 3)
    if c["overwrite"] is not None:
        kw["overwrite"] = _flag(case, c["overwrite"], 4)
    if c["explicit"]:
        kw["output_name"] = out
    label = c["direction"]
    if c["overwrite"] is False and c["preexisting"]:
        for attempt in (1, 2):                     # a second refused call must leave the file byte-identical too
            raised = None
            try:
                if c["positional"] and attempt == 2:
                    f(src, kw.get("invert", False), _flag(case, False, 5), kw.get("output_name"))
                else:
                    f(src, **kw)
            except Exception as e:
                raised = type(e).__name__
            now = open(out, "rb").read() if os.path.isfile(out) else None
            good = raised is not None and now == sentinel
            ctx.check("overwrite_refusal", good, None if good else {"function": label, "raised": raised, "output": os.path.basename(out),
                                                                    "output_bytes_unchanged": now == sentinel, "explicit_name": c["explicit"],
                                                                    "sentinel": c["sentinel"], "attempt": attempt,
                                                                    "output_len_now": None if now is None else len(now), "sentinel_len": len(sentinel)})
            if not good:
                break
        kw["overwrite"] = _flag(case, True, 6)     # then the permitted overwrite must produce the conversion
        with open(out, "wb") as fh:                # (from the same starting point)
            fh.write(sentinel)
    if c["positional"]:
        ok, _ = ctx.call(label, f, src, kw.get("invert", False), kw.get("overwrite", True), kw.get("output_name"))
    else:
        ok, _ = ctx.call(label, f, src, **kw)
    if not ok:
        return
    _judge_conversion(ctx, label, out, X, c["invert"], d, {"explicit_name": c["explicit"]})


def _judge_conversion(ctx, label, out, X, invert, d, info):
    """converter output parsed from bytes = X (what the source file holds), negated when invert."""
    exp = _negated(X) if invert else X
    if not os.path.isfile(out):
        present = []
        for root, _, fs in os.walk(d or "."):
            present += [os.path.relpath(os.path.join(root, f), d) for f in fs]
        ctx.check("convert_voxels", False, dict(info, function=label, missing_output=out, cwd_relative=not os.path.isabs(out), files_present=sorted(present)[:30]))
        return
    P = orc.parse(out)
    if "error" in P:
        ctx.check("convert_voxels", False, dict(info, function=label, output=os.path.basename(out), parse=orc.header_summary(P)))
        return
    good = tuple(P["dims"]) == X.shape and orc.values_equal(P["data"], exp)
    key = KEY_INTMIN if (not good and _intmin_wrap_only(P["data"], X, invert)) else None
    ctx.check("convert_voxels", good, None if good else dict(orc.explain(P["data"], exp), function=label, invert=invert,
                                                            header=orc.header_summary(P), source_dtype=str(X.dtype), **info), key=key)


def _anchor_chain(ctx, case, d, path, disk, ext):
    """objects produced by one anchor fed into another: the array read() returned is written again (any layout it has),
    files written by the converters are converted back; each end is parsed from bytes and must hold the original voxels."""
    cm = ctx.cmap
    i = case["i"]
    cd = os.path.join(d, "chain")
    _mk(cd)
    for rT in ((True, False) if case["cls"] == "anchor_chain" else (bool(i % 2),)):
        ok, r = ctx.call("read(chain)", cm.read, path, transpose=rT)
        if not ok:
            continue
        for e2 in ([".em", ".mrc", ".rec"] if case["cls"] == "anchor_chain" else [[".em", ".mrc", ".rec"][(i + 1) % 3]]):
            p2 = os.path.join(cd, "again_%d%s" % (int(rT), e2))
            ok, _ = ctx.call("write(chain)", cm.write, r, p2, transpose=rT)      # same convention both ways: file must equal `disk`
            if not ok:
                continue
            good, w = orc.check_written(p2, disk, False)
            ctx.check("anchor_chain", good, None if good else dict(w, stage="write(read(p, transpose=%s), transpose=%s)" % (rT, rT), source=ext))
            # a view of the returned object (swapped back and forth) holds the same values
            ok, _ = ctx.call("write(chain)", cm.write, np.swapaxes(np.swapaxes(r, 0, 2), 0, 2)[...], p2, transpose=rT)
    if ext in (".em", ".mrc"):
        a_ext, b_ext = (".mrc", ".em") if ext == ".em" else (".em", ".mrc")
        f1, f2 = (cm.em2mrc, cm.mrc2em) if ext == ".em" else (cm.mrc2em, cm.em2mrc)
        mid = os.path.join(cd, "mid" + a_ext)
        end = os.path.join(cd, "end" + b_ext)
        ok, _ = ctx.call("convert(chain)", f1, path, output_name=mid)
        if ok:
            ok, _ = ctx.call("convert(chain)", f2, mid, output_name=end)
        if ok:
            good, w = orc.check_written(end, disk, False)
            ctx.check("anchor_chain", good, None if good else dict(w, stage="%s then back" % f1.__name__, source=ext))
            ok, _ = ctx.call("convert(chain)", f2, mid)                # default name next to mid, made from a converter's output
            if ok:
                good, w = orc.check_written(os.path.join(cd, "mid" + b_ext), disk, False)
                ctx.check("anchor_chain", good, None if good else dict(w, stage="default name from a converter output", source=ext))


def _scribble(a, how):
    """overwrite a read() result in place (the caller owns it); returns False if it is not writeable."""
    if not isinstance(a, np.ndarray) or not a.flags.writeable:
        return False
    with np.errstate(all="ignore"):
        if how == 0:
            a *= -1
            a += 3
        elif how == 1:
            a[...] = 77
        else:
            a[...] = a[::-1, ::-1, ::-1].copy()
            a.flat[0] = 55
    return True


def _edit_reread(ctx, case, d, path, first, kw):
    """history: read -> edit the result in place -> read the same untouched file again / convert it; everything is judged
    against the bytes on disk (parsed once, before any edit)."""
    cm = ctx.cmap
    P = orc.parse(path)
    if "error" in P:
        return
    X = np.array(P["data"], copy=True)
    i = case["i"]
    ext = orc.ext_of(path)

    def expect(k):
        return _expected_back(X, bool(k.get("transpose", True)), k.get("data_type"))

    def judge(stage, got, k):
        exp = expect(k)
        if exp is None:
            ctx.ood("reread_after_edit")
            return
        good = isinstance(got, np.ndarray) and orc.values_equal(got, exp)
        ctx.check("reread_after_edit", good, None if good else dict(orc.explain(np.asarray(got), exp), stage=stage, file=os.path.basename(path),
                                                                 options={a: str(b) for a, b in k.items()}))

    prev = first
    for rep in range(2):                                   # same options twice: edit, read again, edit, read again
        writeable = _scribble(prev, (i + rep) % 3)
        ok, again = ctx.call("read(again)", cm.read, path, **kw)
        if not ok:
            return
        judge("same options, after in-place edit #%d of the previous result" % (rep + 1), again, kw)
        if writeable and isinstance(again, np.ndarray):
            sh = bool(np.shares_memory(prev, again))
            ctx.check("read_results_independent", not sh, {"file": os.path.basename(path), "stage": rep, "shares_memory": sh})
        else:
            ctx.ood("read_results_independent")
        prev = again
    # other option sets (each has its own history: read, edit, read again)
    others = [{}, {"transpose": False}, {"data_type": np.float64}, {"transpose": False, "data_type": np.float32}]
    for k in (others[i % 4], others[(i + 1) % 4]):
        ok, a = ctx.call("read(again)", cm.read, path, **k)
        if not ok:
            continue
        judge("other options, first read", a, k)
        w = _scribble(a, (i + 1) % 3)
        ok, b = ctx.call("read(again)", cm.read, path, **k)
        if not ok:
            continue
        judge("other options, after in-place edit", b, k)
        if w and isinstance(b, np.ndarray):
            sh = bool(np.shares_memory(a, b))
            ctx.check("read_results_independent", not sh, {"file": os.path.basename(path), "options": {x: str(y) for x, y in k.items()}, "shares_memory": sh})
        else:
            ctx.ood("read_results_independent")
    # converters get their voxels through read(path) with default options: edit such a result, then convert
    if ext in (".em", ".mrc"):
        ok, a = ctx.call("read(again)", cm.read, path)
        if ok:
            _scribble(a, i % 3)
            f, label, oext = (cm.em2mrc, "em2mrc", ".mrc") if ext == ".em" else (cm.mrc2em, "mrc2em", ".em")
            invert = bool(i % 2) and not (X.dtype.kind == "i" and bool(np.any(X == np.iinfo(X.dtype).min)))
            out = os.path.join(d, "after_edit_%s%s" % (ext[1:], oext))
            ok, _ = ctx.call(label + "(after edit)", f, path, invert=invert, output_name=out)
            if ok:
                _judge_conversion(ctx, label, out, X, invert, d, {"stage": "source read() result edited in place before the conversion"})
            # and what read() hands out afterwards is still the file
            ok, c = ctx.call("read(again)", cm.read, path)
            if ok:
                judge("default options, after conversion", c, {})


def _edit_in_place(A, step):
    """edit the caller-owned array in place; never overflows (ints: bitwise-not-like -A-1), always changes it."""
    with np.errstate(all="ignore"):
        if A.dtype.kind == "i":
            if step % 2 == 0:
                np.invert(A, out=A)
            else:
                A[...] = np.roll(A, 1, axis=int(np.argmax(A.shape)))
                A.flat[0] = 11 if A.flat[0] != 11 else 12
        else:
            if step % 2 == 0:
                A *= -1
                A += 0.5
            else:
                A[...] = np.roll(A, 1, axis=int(np.argmax(A.shape)))
                A.flat[0] = 11.25 if A.flat[0] != 11.25 else 12.5


def _rewrite_history(ctx, case, d):
    """write(A,p) -> read/convert -> edit A in place -> write(A,p) again -> read/convert ... every observation is judged
    against what A held when it was last written (write_bytes judges each write against A at that moment as well)."""
    cm = ctx.cmap
    i = case["i"]
    A = np.array(case["arr"], copy=True)
    hd = os.path.join(d, "hist")
    os.makedirs(hd, exist_ok=True)
    exts = case["exts"] if case["cls"] == "write_mutate_rewrite" else [case["exts"][i % 3]]
    wkw = {}
    if not case["wT"]:
        wkw["transpose"] = False
    rkw = {} if case["rT"] else {"transpose": False}

    def observe(stage, path, ext):
        disk = orc.expected_on_disk(A, case["wT"], None)
        ok, back = ctx.call("read(history)", cm.read, path, **rkw)
        if ok:
            exp = _expected_back(disk, case["rT"], None)
            good = isinstance(back, np.ndarray) and orc.values_equal(back, exp)
            ctx.check("rewrite_history", good, None if good else dict(orc.explain(np.asarray(back), exp), stage=stage, ext=ext, what="read"))
        if ext in (".em", ".mrc") and case["wT"]:
            f, label, oext = (cm.em2mrc, "em2mrc", ".mrc") if ext == ".em" else (cm.mrc2em, "mrc2em", ".em")
            out = path[:-len(ext)] + oext                       # default name, overwritten at every step
            ok, _ = ctx.call(label + "(history)", f, path)
            if ok:
                P = orc.parse(out)
                good = "error" not in P and tuple(P["dims"]) == disk.shape and orc.values_equal(P["data"], disk)
                ctx.check("rewrite_history", good, None if good else dict(orc.explain(P["data"], disk) if "error" not in P else {"parse": orc.header_summary(P)},
                                                                        stage=stage, ext=ext, what=label + " of the rewritten source"))

    for ext in exts:
        path = os.path.join(hd, "h" + ext)
        for step in range(3):
            ok, _ = ctx.call("write(history)", cm.write, A, path, **wkw)
            if not ok:
                break
            observe("after write #%d" % (step + 1), path, ext)
            _edit_in_place(A, step + i)
        # the last edit was not written: the file must still hold the previous values; write it elsewhere and compare both
        other = os.path.join(hd, "h2" + ext)
        ok, _ = ctx.call("write(history)", cm.write, A, other, **wkw)
        if ok:
            observe("other path after edit", other, ext)


def _refusals(ctx, case, d):
    """documented refusals, driven for anchor coverage only (not part of the property: counted, never judged)."""
    cm = ctx.cmap
    a = case["arr"]
    em, mrc = os.path.join(d, "rf.em"), os.path.join(d, "rf.mrc")
    orc.raw_write(em, np.zeros((2, 3, 2), dtype=np.float32))
    orc.raw_write(mrc, np.zeros((2, 3, 2), dtype=np.float32), ispg=1)
    calls = [lambda: cm.read(os.path.join(d, "x.txt")), lambda: cm.read(1234), lambda: cm.write(a, os.path.join(d, "x.txt")),
             lambda: cm.em2mrc(1234), lambda: cm.em2mrc(mrc), lambda: cm.em2mrc(em, output_name=os.path.join(d, "y.em")),
             lambda: cm.mrc2em(1234), lambda: cm.mrc2em(em), lambda: cm.mrc2em(mrc, output_name=os.path.join(d, "y.mrc")),
             lambda: cm.read(a)]
    for fcall in calls:
        try:
            fcall()
        except Exception:
            pass
        ctx.ood("documented_refusal_or_array_input")


def _steps(ctx, case, d, hop=None):
    for k, step in enumerate((_roundtrips, _raw_reads, _convert,
                              _rewrite_history if case.get("rewrite") else None, _refusals if case["refusals"] else None)):
        if step is None:
            continue
        if hop is not None:
            d = hop(k)                               # a fresh working directory before every step, bare relative names in it
        step(ctx, case, d)


def run_case(ctx, case):
    base = os.path.join(ctx.scratch, "c%d" % case["i"])
    os.makedirs(base, exist_ok=True)
    old_cwd = os.getcwd()
    try:
        mode = case.get("relmode")
        if mode is None:
            _steps(ctx, case, base)
            return
        # relative names, judged at the path relative to the CURRENT working directory (monitors and parsers resolve the
        # same relative strings against the cwd at the time of the call)
        def enter(name):
            cwd = os.path.join(base, name)
            os.makedirs(cwd, exist_ok=True)
            os.chdir(cwd)
        if mode == "hop":
            def hop(k):
                enter("hop %d" % k)
                return ["", ".", "w"][k % 3] if k % 3 != 2 else _mkret("w")
            _steps(ctx, case, None, hop)
            return
        enter("cwd_%d" % (case["i"] % 7))
        d = {"bare": "", "dot": ".", "sub": os.path.join("sub dir", "x"), "up": os.path.join("..", "work")}[mode]
        _mk(d)
        _steps(ctx, case, d)
    finally:
        os.chdir(old_cwd)
        shutil.rmtree(base, ignore_errors=True)


def _mkret(path):
    _mk(path)
    return path


def _pseudo_case(n, arr, **over):
    c = {"i": 10 ** 7 + n, "cls": "grid", "arr": arr, "layout": "C", "wT": True, "rT": True, "wdt": None, "rdt": None,
         "exts": [".mrc", ".rec", ".em"], "positional": False, "edit_reread": False, "invert_contrast": False, "rt_stem": "g", "rt_dir": None}
    c.update(over)
    return c


def _small_shape(rng):
    while True:
        s = tuple(int(v) for v in rng.integers(1, 13, 3))
        if len(set(s)) == 3:
            return s


def _option_grids(ctx, d):
    """full products of the in-quantifier options (each pair of options therefore occurs together many times):
    G1 source dtype x every data_type spelling (+None) x transpose x extension on write, read spellings cycling;
    G2 raw file dtype x every value-preserving read data_type spelling x transpose x extension;
    G3 converter direction x invert x default/explicit name x overwrite x pre-existing output x dtype, token names cycling;
    G4 memory layout x transpose x dtype x extension."""
    reps = 1 if ctx.tier == "quick" else 4
    n = 0
    counts = {"grid_write_data_type_cases": 0, "grid_read_data_type_cases": 0, "grid_conversion_cases": 0, "grid_layout_cases": 0}
    read_sp = [sp for t in ("float64", "float32", "int16") for sp in READ_SPELLINGS[t]]
    for rep_ in range(reps):
        # G1
        for di, dt in enumerate(DTYPES):
            for si, (tname, sp) in enumerate([(None, None)] + orc.ALL_SPELLINGS):
                for wT in (True, False):
                    n += 1
                    rng = ctx.rng(10 ** 7 + n, 21)
                    shape = _small_shape(rng)
                    arr = orc.values_for_cast(rng, shape, dt, tname or dt, hard=True)
                    stored = orc.narrowed(arr if tname is None else arr.astype(tname))
                    rdt = read_sp[(n + si) % len(read_sp)] if n % 3 else None
                    if rdt is not None and orc.exact_cast(stored, rdt) is None:
                        rdt = [np.float64, "d", float, "f8"][n % 4]
                    g = os.path.join(d, "g1")
                    os.makedirs(g, exist_ok=True)
                    _roundtrips(ctx, _pseudo_case(n, arr, wT=wT, rT=bool((n // 2) % 2), wdt=sp, rdt=rdt, positional=bool(n % 5 == 0)), g)
                    counts["grid_write_data_type_cases"] += 1
        # G2
        for dt in (np.float32, np.int16, np.int8):
            for sp in read_sp:
                for rT in (True, False):
                    n += 1
                    rng = ctx.rng(10 ** 7 + n, 22)
                    arr = orc.values_for_cast(rng, _small_shape(rng), dt, np.dtype(sp) if np.dtype(sp).kind == "f" else np.dtype(sp), hard=True)
                    if orc.exact_cast(arr, sp) is None:
                        continue
                    g = os.path.join(d, "g2")
                    os.makedirs(g, exist_ok=True)
                    c = _pseudo_case(n, arr, rT=rT, rdt=sp, raw=[{"ext": e, "ispg": [None, 1, 0][n % 3], "nsymbt": [0, 0, 80][n % 3]} for e in (".em", ".mrc", ".rec")])
                    _raw_reads(ctx, c, g)
                    counts["grid_read_data_type_cases"] += 1
        # G3 (run twice: absolute names, then relative names after a chdir into a fresh directory)
        stems = TOKEN_STEMS + STEMS + PATH_STEMS
        for relative in (False, True):
          for direction in ("em2mrc", "mrc2em"):
              for invert in (False, True):
                  for explicit in (False, True):
                      for overwrite in (None, True, False):
                          for pre in (False, True):
                              for dt in DTYPES:
                                  n += 1
                                  rng = ctx.rng(10 ** 7 + n, 23)
                                  arr = orc.make_values(rng, _small_shape(rng), dt, "normal")
                                  conv = {"direction": direction, "invert": invert, "explicit": explicit, "stem": stems[n % len(stems)],
                                          "dir": TOKEN_DIRS[(n // 3) % len(TOKEN_DIRS)], "src_by": ["raw", "cryomap.write"][n % 2],
                                          "overwrite": overwrite, "preexisting": pre, "sentinel": ["junk", "valid"][(n // 2) % 2],
                                          "positional": n % 7 == 0, "src_abs": relative and n % 3 == 0,
                                          "out_subdir": explicit and n % 4 < 2}
                                  g = os.path.join(d, "g3_%d" % n)
                                  os.makedirs(g, exist_ok=True)
                                  if relative:
                                      here = os.getcwd()
                                      os.chdir(g)
                                      try:
                                          rel = ["", ".", "w", os.path.join("..", "g3_%d" % n, "v")][n % 4]
                                          _mk(rel)
                                          _convert(ctx, _pseudo_case(n, arr, conv=conv, flags=(n % 9 == 0) * (1 + n % 40)), rel)
                                      finally:
                                          os.chdir(here)
                                      counts["grid_conversion_relative_cases"] = counts.get("grid_conversion_relative_cases", 0) + 1
                                  else:
                                      _convert(ctx, _pseudo_case(n, arr, conv=conv), g)
                                      counts["grid_conversion_cases"] += 1
                                  shutil.rmtree(g, ignore_errors=True)
        # G4
        for layout in ("C", "F", "strided", "reversed", "transposed_view", "readonly"):
            for wT in (True, False):
                for dt in DTYPES:
                    n += 1
                    rng = ctx.rng(10 ** 7 + n, 24)
                    arr = orc.make_values(rng, _small_shape(rng), dt, "ramp" if n % 2 else "normal")
                    g = os.path.join(d, "g4")
                    os.makedirs(g, exist_ok=True)
                    _roundtrips(ctx, _pseudo_case(n, arr, layout=layout, wT=wT, rT=bool(n % 2)), g)
                    counts["grid_layout_cases"] += 1
        # G5: relative round-trip names after a chdir, every mode x dtype x transpose
        for mode in ("", ".", "w", os.path.join("..", "up")):
            for dt in DTYPES:
                for wT in (True, False):
                    n += 1
                    rng = ctx.rng(10 ** 7 + n, 25)
                    arr = orc.make_values(rng, _small_shape(rng), dt, "normal")
                    g = os.path.join(d, "g5_%d" % n, "cwd")
                    os.makedirs(g, exist_ok=True)
                    here = os.getcwd()
                    os.chdir(g)
                    try:
                        _mk(mode)
                        _roundtrips(ctx, _pseudo_case(n, arr, wT=wT, rT=bool(n % 2), rt_stem=PATH_STEMS[n % len(PATH_STEMS)], flags=(n % 3 == 0) * (1 + n % 40)), mode)
                    finally:
                        os.chdir(here)
                    shutil.rmtree(os.path.join(d, "g5_%d" % n), ignore_errors=True)
                    counts["grid_relative_roundtrip_cases"] = counts.get("grid_relative_roundtrip_cases", 0) + 1
    return counts


def extra(ctx):
    """exhaustive sub-space: every shape in {1..N}^3 x 4 dtypes x 3 extensions, write then read, plus a raw file."""
    cm = ctx.cmap
    n = 4 if ctx.tier == "quick" else 8
    d = os.path.join(ctx.scratch, "exhaustive")
    os.makedirs(d, exist_ok=True)
    count = 0
    for si, shape in enumerate(itertools.product(range(1, n + 1), repeat=3)):
        for di, dt in enumerate(DTYPES):
            rng = ctx.rng(10 ** 7 + si, 10 + di)
            arr = orc.make_values(rng, shape, dt, "normal")
            X = orc.narrowed(arr)
            for ext in (".mrc", ".rec", ".em"):
                p = os.path.join(d, "e" + ext)
                ok, _ = ctx.call("write", cm.write, arr, p)
                if ok:
                    ok, back = ctx.call("read", cm.read, p)
                if ok:
                    good = isinstance(back, np.ndarray) and orc.values_equal(back, X)
                    ctx.check("roundtrip", good, None if good else dict(orc.explain(np.asarray(back), X), ext=ext, exhaustive=True))
                count += 1
                r = os.path.join(d, "r" + ext)
                orc.raw_write(r, X, ispg=1 if ext != ".em" else None)
                ok, back = ctx.call("read(raw file)", cm.read, r)
                if ok:
                    good = isinstance(back, np.ndarray) and orc.values_equal(back, X)
                    ctx.check("raw_read", good, None if good else dict(orc.explain(np.asarray(back), X), ext=ext, exhaustive=True))
    grids = _option_grids(ctx, d)
    ctx.extra.update(grids)
    ctx.extra["exhaustive_small_shapes"] = "all %d shapes in {1..%d}^3 x 4 dtypes x 3 extensions" % (n ** 3, n)
    ctx.extra["exhaustive_roundtrips"] = count
    shutil.rmtree(d, ignore_errors=True)
