"""C19 - Chain tracing partitions particles into simple, distance-respecting chains (cryocat/ribana.py).

Shape: postcondition at a hook + driver-side re-evaluation against the generator's ground truth.

Call monitor (attached in place on ribana.trace_chains, so calls from cryocat.structure are judged too), one in-domain
evaluation per call and clause:
  partition      the returned table holds every input particle id exactly once (multiset equality).
  tomogram       every particle keeps its tomogram; consecutive chain members come from the same tomogram.
  orders         per (tomo_id, object_id) the order numbers (geom2) are exactly 1..k.
  link_range     for consecutive members |exit(former) - entry(latter)| lies in (min_distance, max_distance]
                 (exit from the exit list, entry from the entry list, both looked up by subtomo_id; numpy brute force).
  link_recorded  that distance equals geom4 of the former (1e-9).
Driver (relational, on the same real call): truth_chains re-evaluates all five clauses against the coordinates the
generator constructed (not the arguments as read back by the monitor; for EM-file inputs these are the float32 values the
generator wrote with its own struct writer), and trivial_pairs checks the consequence "no candidate pair in range =>
every chain is a singleton; a pair of particles can only be chained if its exit->entry distance is in range".
History: for every fifth variant of each class and for the whole class second_call_moved_exits the driver makes a SECOND real call in the
same process with the same entry list and another exit list (exit sites handed round inside each tomogram, or half of them moved away
by 3..6 max_distance), and for even cases a third call with the first lists again; every call is judged by the call monitor against its
own arguments and by truth_chains / trivial_pairs against its own ground truth (state kept between calls must not leak).
Anchor tracing: every branch of get_nn_dist / add_chain_suffix / add_chain_prefix / the main loop is a named branch; a
reach:<branch> monitor (one evaluation per shard that reached it) makes a run in which a reachable branch stayed
unreached INCONCLUSIVE.
"""
import os

import numpy as np
import pandas as pd

from vmon import gens, monitors
from vmon.oracles import c19_oracle as orc
from vmon.oracles import files, so3

PROP = "C19"
RULE = ("cases = paired entry/exit particle lists (2..60 particles, 1..3 tomograms) assembled from constructed spatial gadgets "
        "(chains started in the middle, heads competing for one tail, exits with two candidate entries, prefix cut / reject, "
        "suffix after a cut, both-sided joins with and without cut, tail cuts alone / after / together with a both-sided join, chains bending "
        "back onto themselves, closed rings, candidates inside min_distance), hub explorers (late suitors, random candidate forests) and "
        "random dense clusters, each under a random rigid motion, row interleaving, id/index/"
        "input-form presentation, with max_distance 4..60 and min_distance 0 or 5..45% of it; non-trivial = at least one "
        "exit->entry candidate pair lies in (min, max]; distinct by digest of (class, variant, n, tomograms, distances, "
        "presentation, gadget tags, first coordinates)")
ASSUMPTIONS = [
    "chain = rows sharing (tomo_id, object_id) in the returned Motl; order number = geom2; recorded distance = geom4 of the former member "
    "(defaults store_idx1/store_idx2/store_dist; calls with other store fields or another feature are outside the quantifier)",
    "entry and exit lists are paired BY ROW: row k of both lists is the same particle (cryoCAT takes the entry row and the exit site at the "
    "same position inside each tomogram subset, and looks the subtomo_id of an EXIT row up among traced ENTRY rows in add_chain_suffix), "
    "so in-domain inputs have equal subtomo_id and tomo_id row by row; subtomo_ids are unique over the list; the index labels of a Motl OBJECT are unique "
    "(outside the quantifier by the lead's ruling, counted out of domain: Motl objects with REPEATED index labels - Motl(pd.concat([a.df, b.df])), or the "
    "Motl returned by trace_chains itself fed back in - make cryoCAT's label lookups `motl.df.loc[motl.df.index[k], 'subtomo_id']` raise ValueError; "
    "DataFrame arguments with repeated labels, incl. the returned table res.df fed back, are inside and generated, as are permuted / reversed / gapped / "
    "string-label indexes on both forms)",
    "site = (x+shift_x, y+shift_y, z+shift_z) of the respective list; distance = Euclidean norm in float64; tolerance 1e-9 on the recorded value",
    "bounds are decided, not avoided: (a) pairs whose two sites and both bounds lie on the 1/8 lattice (|value| < 2**20) are decided exactly on the "
    "squares: d == min_distance is outside (exclusive lower bound, incl. d == 0 with min_distance == 0: an entry site exactly ON an exit site must "
    "not be linked), d == max_distance is inside (allowed, not demanded); (b) every other pair is decided by comparing the float64 distance with the "
    "bound, down to a relative margin of 1e-12 (classes bound_slivers*: nearest candidate at max*(1+d), max*(1-d), min*(1-d), min*(1+d), "
    "d = 1e-12 .. 1e-6); only inputs with an off-lattice candidate within float64 round-off of a bound (|d - b| < 1e-13*b), where a squared-radius "
    "test and a sqrt may legitimately disagree, are out of domain; generators of classes that do not aim at the bounds keep 1e-6 away from them; "
    "ties between candidates are never excluded (class same_chain_exact_tie* plants exactly equal suffix/prefix distances on one chain)",
    "the property does not demand that an admissible candidate IS linked: candidates planted just inside the interval are counted in "
    "observed.sliver_admissible_*_linked, not judged",
    "measured on class lattice_ties: sklearn's KD-tree returns integer-offset distances exactly (3-4-5 -> 5.0), pairs exactly at max ARE linked by "
    "cryoCAT and recorded exactly, pairs exactly at min never are",
    "subtomo_id presentations: 1..n, unsorted non-contiguous, tomogram*100000+n and 17000000+n (consecutive, in row order or shuffled over the rows; "
    "float or int64 columns; no EM-file form above 2**24), cycled deterministically over the variants of every class",
    "particle counts 60, 59, 58, 2**k-1 / 2**k / 2**k+1 (k = 3..5) and 39/40/41 (KD-tree leaf size) in ONE tomogram for every second variant of the "
    "cluster / forest / suitor classes; exact duplicate particles (same entry and exit site, other id) in every third variant of the cluster classes; "
    "tomogram ids 1..299, adjacent just above 1e5 and adjacent above 2**24; ids additionally 2**24+n, 2**31+n, 2**53-70+n; the pandas index of the "
    "two Motl lists differs in 7 of 8 index presentations (range/permuted/gaps/reversed/string labels, cycled); in-place histories: the caller's own "
    "DataFrame / Motl / EM file is overwritten between the first and second and again before the third call",
    "argument SHAPES cycled deterministically, values unchanged: geom4/object_id/geom2 as int64 or int32, whole table allocated as integers with only "
    "x,y,z real (pd.DataFrame(0, ...)), column order canonical/reversed/permuted, one consolidated C / Fortran-ordered / read-only block, DataFrame.attrs "
    "and an extra Motl attribute, EM files named *_ribosome.em / *frame.em / in 'sub dir/t\u00fcb\u00ef/[..] b*?.em' / without extension / relative to cwd, the "
    "loader's returned object instead of the path, max_distance / min_distance as float, np.float64, 0-d array, int, np.int64(0), -0.0, omitted; "
    "ids and tomogram ids that are 0; float32-typed tables are outside the quantifier and not generated",
    "the value recorded on the LAST member of a chain is not constrained by the property (cryoCAT leaves stale values there after a cut) "
    "and is not judged; object numbers need not be contiguous",
    "the false side of `if cl_max > 1` in trace_chains is unreachable (after a successful suffix join every order number of the new chain is "
    "at least 2) and carries no claim.  add_chain_suffix's tail cut IS reachable, but only through a particular history: a prefix cut turns P "
    "into a chain end, a first suffix partner F1 joins it, and a later chain F2 starts closer to P's exit (any exit met during plain tracing "
    "already took its nearest unclaimed entry, so it refuses later suitors); classes tail_cut* construct exactly this",
]

CLASSES = ["random_cluster", "late_suitors", "candidate_forest", "line_mid_start", "prefix_cut", "prefix_reject", "prefix_first", "heads_compete", "suffix_reject_fork",
           "suffix_after_cut", "both_sides_nocut", "both_sides_cut", "both_sides_reject", "bend_back_after_cut", "tail_cut", "tail_cut_after_join", "tail_cut_with_join", "same_target_single",
           "same_chain_bridge", "closed_ring", "min_distance_shell", "tomo_overlap", "odd_ids_index", "zero_displacement", "tiny", "lattice_ties", "second_call_moved_exits",
           "bound_slivers", "same_chain_exact_tie", "bound_slivers_2", "same_chain_exact_tie_2"]

CLAUSES = ["partition", "tomogram", "orders", "link_range", "link_recorded"]
ID_KINDS = ["seq", "big100k", "shuffled_gaps", "big17M", "big2p24", "seq0", "big2p31", "near2p53"]

BR_NN = {"nn_empty_radius": ("return -1, []", 0), "nn_none_active": ("return -1, []", 1), "nn_min_filter": "rp_idx = rp_idx[rp_dist >",
         "nn_none_after_min": ("return -1, []", 2), "nn_found": "return rp_idx[0], rp_dist[0]"}
BR_SUF = {"suffix_not_last": "if previous_dist <= current_dist", "suffix_reject": "return False",
          "suffix_tailcut": "current_class = chain_df[store_idx1].values[0]", "suffix_append": "chain_df[store_idx1] = temp_cl_id"}
BR_PRE = {"prefix_not_first": "previous_dist = traced_df.loc[", "prefix_reject": "return -1", "prefix_cut": "cut_off_size = traced_df.loc[",
          "prefix_cut_append_only": "] = current_class", "prefix_cut_bothsides": "] = -1  # class_max[1]",
          "prefix_append_only": "chain_df[store_idx1] = class_to_change", "prefix_bothsides": "temp_cl_id = chain_df[store_idx1][0]",
          "prefix_bothsides_restore": "traced_df.loc[traced_df[store_idx1] == -1"}
BR_MAIN = {"skip_used": ("continue", 0), "all_used_end": "np_idx = -1", "continue_trace": "p_idx = np_idx", "end_chain": "ch_m.loc[:, store_idx1] = class_c",
           "check_existing": "first_coord = first_coord.reshape(1, 3)",
           "same_single_suffix_only": ("nm_idx = -1  # add only suffix", 0), "same_single_prefix_only": ("first_idx = -1  # add only prefix", 0),
           "same_chain_test": "part1 = fm_exit.df.loc[", "same_chain_suffix_only": ("nm_idx = -1  # add only suffix", 1),
           "same_chain_prefix_only": ("first_idx = -1  # add only prefix", 1), "call_suffix": "ch_changed = add_chain_suffix(",
           "call_prefix": "class_max = None", "both_sides": "class_max = (cl_max, current_class)"}
UNREACHABLE = set()
ANCHORS = {"get_nn_dist": BR_NN, "add_chain_suffix": BR_SUF, "add_chain_prefix": BR_PRE, "trace_chains": BR_MAIN}
REACH = ["reach:%s.%s" % (a, b) for a, br in ANCHORS.items() for b in br if "%s.%s" % (a, b) not in UNREACHABLE]


def plan(tier):
    reach = {r: 1 for r in REACH}
    if tier == "quick":
        n = len(CLASSES) * 14
        me = {c: 300 for c in CLAUSES}
        me.update({"truth_chains": 300, "trivial_pairs": 300})
        me.update(reach)
        return dict(n_cases=n, shards=3, classes=CLASSES, timeout_s=600, min_evals=me, min_anchor_calls={"trace_chains": 300})
    n = len(CLASSES) * 640
    me = {c: 12000 for c in CLAUSES}
    me.update({"truth_chains": 12000, "trivial_pairs": 12000})
    me.update(reach)
    return dict(n_cases=n, shards=16, classes=CLASSES, timeout_s=3000, min_evals=me, min_anchor_calls={"trace_chains": 12000})


# ---- call monitor ---------------------------------------------------------------------------------
def _applicable(A):
    if A.get("feature") != "tomo_id" or (A.get("store_idx1"), A.get("store_idx2"), A.get("store_dist")) != ("object_id", "geom2", "geom4"):
        return False
    try:
        dmax, dmin = float(A["max_distance"]), float(A["min_distance"])
    except Exception:
        return False
    if not (np.isfinite(dmax) and np.isfinite(dmin) and dmin >= 0 and dmax > 0):
        return False
    E, X = orc.read_list(A["motl_entry"]), orc.read_list(A["motl_exit"])
    if not orc.paired(E, X) or not (2 <= E["n"] <= 60) or not (1 <= len(np.unique(E["tomo"])) <= 3):
        return False
    if not (E["index_unique"] and X["index_unique"]):
        return False
    return orc.boundary_clear(E, X, dmin, dmax)


def _snapshot(A):
    return {"E": orc.read_list(A["motl_entry"]), "X": orc.read_list(A["motl_exit"]),
            "dmax": float(A["max_distance"]), "dmin": float(A["min_distance"])}


def _judge(ctx, names, E, X, out, dmin, dmax, extra_w=None):
    if out is None:
        for n in names:
            ctx.check(n, False, {"what": "result is not a Motl with subtomo_id/tomo_id/object_id/geom2/geom4"})
        return None
    w, stats = orc.validate(E, X, out, dmin, dmax, 1e-9)
    if len(names) == 1:
        bad = {k: v for k, v in w.items() if v is not None}
        ctx.check(names[0], not bad, dict(bad, **(extra_w or {})) if bad else None)
    else:
        for n in names:
            ctx.check(n, w[n] is None, w[n])
    return stats


def _post(ctx, A, old, result):
    stats = _judge(ctx, CLAUSES, old["E"], old["X"], orc.read_output(result), old["dmin"], old["dmax"])
    if stats:
        for k in ("chains", "links", "singletons"):
            ctx.extra["observed_" + k] = ctx.extra.get("observed_" + k, 0) + stats[k]
        if stats["longest"] >= 5:
            ctx.extra["calls_with_chain_of_5_or_more"] = ctx.extra.get("calls_with_chain_of_5_or_more", 0) + 1


def setup(ctx):
    from cryocat import cryomotl, ribana
    ctx.cm, ctx.rb = cryomotl, ribana
    f = monitors.wrap(ctx, ribana, "trace_chains", "partition", _post, _applicable, _snapshot)
    ctx.declare(*CLAUSES)
    ctx.declare("truth_chains", "trivial_pairs")
    monitors.trace(ctx, [("trace_chains", f, BR_MAIN), ("add_chain_suffix", ribana.add_chain_suffix, BR_SUF),
                         ("add_chain_prefix", ribana.add_chain_prefix, BR_PRE), ("get_nn_dist", ribana.get_nn_dist, BR_NN)])
    ctx.notes.append("unreachable (see assumptions), no claim: trace_chains 'if cl_max > 1' false side")


def teardown(ctx):
    """a named branch reached by this shard = one evaluation of reach:<anchor>.<branch> (plan: >= 1 over all shards)."""
    if ctx.tracer is None or ctx.replaying:
        return
    rep = ctx.tracer.report()
    ctx.cur = {"index": "teardown", "cls": "reach"}
    for a, br in ANCHORS.items():
        located = {nm for names in ctx.tracer.anchors.get(a, {}).get("branch_lines", {}).values() for nm in names}
        for b in br:
            n = rep.get(a, {}).get("branches", {}).get(b, 0)
            name = "reach:%s.%s" % (a, b)
            if name in REACH:
                ctx.declare(name)
                if b not in located:
                    # the needle is not in the current source (refactored code): the minimum is waived, the branch carries no coverage claim
                    ctx.check(name, True)
                    note = "named branch %s.%s not located in the current source: reach minimum waived, branch coverage NOT observed" % (a, b)
                    if note not in ctx.notes:
                        ctx.notes.append(note)
                elif n > 0:
                    ctx.check(name, True)
            elif n > 0:
                ctx.notes.append("branch %s.%s, held to be unreachable, WAS reached %d times" % (a, b, n))


# ---- geometry helpers -----------------------------------------------------------------------------
def _unit(v):
    return v / np.linalg.norm(v)


def _rand_unit(rng):
    while True:
        v = rng.normal(size=3)
        if np.linalg.norm(v) > 1e-3:
            return _unit(v)


def _perp(rng, u):
    while True:
        a = _rand_unit(rng)
        p = a - a.dot(u) * u
        if np.linalg.norm(p) > 0.2:
            return _unit(p)


def _perp_set(rng, u, k):
    p = _perp(rng, u)
    q = np.cross(u, p)
    base = rng.uniform(0, 2 * np.pi)
    return [np.cos(base + 2 * np.pi * j / k) * p + np.sin(base + 2 * np.pi * j / k) * q for j in range(k)]


def _tilt(rng, u, deg):
    a = np.radians(rng.uniform(0, deg))
    return _unit(np.cos(a) * u + np.sin(a) * _perp(rng, u))


class Scene:
    """particles (entry site, exit site) in local coordinates + the set of intended candidate links (i -> j)."""

    def __init__(self, rng, D, m):
        self.rng, self.D, self.m = rng, float(D), float(m)
        self.E, self.X, self.edges = [], [], set()

    def frac(self, lo, hi):
        return self.m + (self.D - self.m) * float(self.rng.uniform(lo, hi))

    def raw(self, e, x):
        self.E.append(np.asarray(e, float))
        self.X.append(np.asarray(x, float))
        return len(self.E) - 1

    def _len(self):
        return self.D * float(self.rng.uniform(1.7, 2.6))

    def fwd(self, e0, u, k, steps=None):
        ids, e = [], np.asarray(e0, float)
        for t in range(k):
            i = self.raw(e, e + self._len() * _tilt(self.rng, u, 12))
            if ids:
                self.edges.add((ids[-1], i))
            ids.append(i)
            d = steps[t] if steps is not None and t < len(steps) else self.frac(0.1, 0.8)
            e = self.X[i] + d * _tilt(self.rng, u, 20)
        return ids

    def bwd(self, x_last, u, k, steps=None):
        """k particles flowing along u, the last one's exit site is x_last; returns ids in chain order."""
        ids, x = [], np.asarray(x_last, float)
        for t in range(k):
            i = self.raw(x - self._len() * _tilt(self.rng, u, 12), x)
            if ids:
                self.edges.add((i, ids[0]))
            ids.insert(0, i)
            d = steps[t] if steps is not None and t < len(steps) else self.frac(0.1, 0.8)
            x = self.E[i] - d * _tilt(self.rng, u, 20)
        return ids

    def through(self, e_t, u, before, after, d_in, steps_after=None):
        """a line along u whose member T has its entry at e_t; `before` members precede T (the last at d_in from T), `after` follow."""
        aft = self.fwd(e_t, u, 1 + after, steps_after)
        bef = []
        if before:
            bef = self.bwd(np.asarray(e_t, float) - d_in * _tilt(self.rng, u, 15), u, before)
            self.edges.add((bef[-1], aft[0]))
        return bef, aft

    def attach_in(self, target, d, w, k):
        """a chain of k arriving from direction w: its last exit lies at distance d from the entry of `target`."""
        ids = self.bwd(self.E[target] + d * w, -w, k)
        self.edges.add((ids[-1], target))
        return ids

    def attach_out(self, source, d, w, k, body=None):
        """a chain of k whose first entry lies at distance d (direction w) from the exit of `source`; it runs along `body` (default w)."""
        ids = self.fwd(self.X[source] + d * w, w if body is None else body, k)
        self.edges.add((source, ids[0]))
        return ids

    def bridge(self, source, d_s, target, d_p, w, q):
        """q (1 or 2) particles from near the exit of `source` to near the entry of `target`, bulging out along w."""
        e1 = self.X[source] + d_s * w
        xq = self.E[target] + d_p * w
        if q == 1:
            ids = [self.raw(e1, xq)]
        else:
            mid = 0.5 * (e1 + xq) + self.D * float(self.rng.uniform(1.6, 2.4)) * w
            dr = _unit(xq - e1) if np.linalg.norm(xq - e1) > 1e-6 else _perp(self.rng, w)
            ds = self.frac(0.1, 0.8)
            a = self.raw(e1, mid - 0.5 * ds * dr)
            b = self.raw(mid + 0.5 * ds * dr, xq)
            self.edges.add((a, b))
            ids = [a, b]
        self.edges.add((source, ids[0]))
        self.edges.add((ids[-1], target))
        return ids


# ---- gadgets: each returns (rows = scene ids in row order, tag) ------------------------------------------
def g_line(sc, v):
    """a simple line cut into 2..4 row blocks that are presented in a permuted order (chains started in the middle)."""
    rng = sc.rng
    k = int(rng.integers(3, 11))
    ids = sc.fwd(np.zeros(3), _rand_unit(rng), k)
    nb = min(k, 2 + v % 3)
    cuts = sorted(rng.choice(np.arange(1, k), nb - 1, replace=False).tolist())
    blocks = [ids[a:b] for a, b in zip([0] + cuts, cuts + [k])]
    perm = rng.permutation(len(blocks)) if v % 4 else np.arange(len(blocks))[::-1]
    return [p for b in perm for p in blocks[int(b)]], "line%d/%s" % (k, "".join(str(int(b)) for b in perm))


def g_prefix(sc, v, mode):
    """main line ..H->P->Y->T.. and a chain L whose last exit approaches an entry of the line from the side."""
    rng = sc.rng
    order = ["ABL", "BAL", "LAB"][v % 3]
    h, t, ell = (v // 3) % 3, int(rng.integers(0, 3)), 1 + (v // 9) % 3
    if mode == "cut":
        d1, d2 = sc.frac(0.55, 0.98), sc.frac(0.03, 0.45)
    elif mode == "reject":
        d1, d2 = sc.frac(0.03, 0.45), sc.frac(0.55, 0.98)
    else:
        d1, d2 = sc.frac(0.05, 0.98), sc.frac(0.05, 0.98)
    u = _rand_unit(rng)
    bef, aft = sc.through(np.zeros(3), u, h + 1, t, d1)
    target = bef[0] if mode == "first" else aft[0]
    L = sc.attach_in(target, d2, _perp(rng, u), ell)
    blocks = {"A": bef, "B": aft, "L": L}
    return [p for c in order for p in blocks[c]], "prefix-%s/%s/h%dt%dl%d" % (mode, order, h, t, ell)


def g_heads_compete(sc, v):
    """2..3 chains whose last exits compete for the entry of the same particle Y, at different distances, in varying row order."""
    rng = sc.rng
    nh = 2 + v % 2
    t = int(rng.integers(0, 3))
    u = _rand_unit(rng)
    ymain = sc.fwd(np.zeros(3), u, 1 + t)
    fr = sorted(rng.uniform(0.04, 0.97, nh).tolist())
    while min(np.diff(fr)) < 0.05:
        fr = sorted(rng.uniform(0.04, 0.97, nh).tolist())
    dirs = [-u] + _perp_set(rng, u, nh - 1)
    heads = []
    for j in range(nh):
        heads.append(sc.attach_in(ymain[0], sc.m + (sc.D - sc.m) * fr[j], dirs[j], int(rng.integers(1, 4))))
    perm = [int(x) for x in rng.permutation(nh)]
    pos = (v // 2) % (nh + 1)                      # where the Y block sits among the head blocks
    blocks = [heads[j] for j in perm]
    blocks.insert(pos, ymain)
    return [p for b in blocks for p in b], "heads%d/ypos%d/%s" % (nh, pos, "".join(map(str, perm)))


def g_fork(sc, v):
    """an exit with two (three) candidate entries S1 < S2 (< S3): the losers head their own chains (suffix refused / prefix)."""
    rng = sc.rng
    b, a = v % 3, int(rng.integers(0, 3))
    u = _rand_unit(rng)
    d1 = sc.frac(0.05, 0.4)
    bef, aft = sc.through(np.zeros(3), u, b + 1, a, d1)          # bef[-1] = X, aft[0] = S1
    nf = 1 + (v // 3) % 2
    ws = _perp_set(rng, u, nf)
    forks = [sc.attach_out(bef[-1], sc.frac(0.5 + 0.25 * j, 0.7 + 0.25 * j), ws[j], int(rng.integers(1, 4))) for j in range(nf)]
    order = (v // 6) % 3
    main = bef + aft
    if order == 0:
        rows = main + [p for f in forks for p in f]
    elif order == 1:
        rows = [p for f in forks for p in f] + main
    else:
        rows = aft + forks[0] + bef + [p for f in forks[1:] for p in f]
    return rows, "fork%d/order%d/b%da%d" % (nf, order, b, a)


def g_after_cut(sc, v, end):
    """P->Y is cut by a closer chain L (P becomes a chain end), then a chain F starts within range of P's exit.
    end: none | head | mid_closer | mid_farther (F's last exit meets another chain) | back (F bends back to P's own chain)."""
    rng = sc.rng
    h = v % 3
    f = 1 if (h == 0 and (v // 3) % 2 == 0) else 1 + (v // 3) % 3
    t, ell = int(rng.integers(0, 3)), int(rng.integers(1, 3))
    d1, d2, d3 = sc.frac(0.3, 0.6), sc.frac(0.03, 0.25), sc.frac(0.65, 0.98)
    flip = v % 8 == 7                             # L farther than P: the cut is refused, F then meets a non-terminal P (suffix refused)
    if flip:
        d1, d2 = d2, d1
    u = _rand_unit(rng)
    bef, aft = sc.through(np.zeros(3), u, h + 1, t, d1)
    P = bef[-1]
    ws = _perp_set(rng, u, 3)
    L = sc.attach_in(aft[0], d2, ws[0], ell)
    base = bef + aft + L
    if end == "back":
        q = 1 + (v // 3) % 2
        mode = (v // 6) % 2                       # 0: suffix side closer, 1: prefix side closer
        ds = d3
        dp = sc.frac(0.05, 0.5) if mode else ds + (sc.D - ds) * float(rng.uniform(0.2, 0.9))
        F = sc.bridge(P, ds, bef[0], dp, ws[1], q)
        return base + F, "aftercut-back/h%dq%d/%s%s" % (h, q, "prefix" if mode else "suffix", "/nocut" if flip else "")
    th = np.radians(rng.uniform(20, 45))
    F = sc.attach_out(P, d3, -np.cos(th) * u + np.sin(th) * ws[1], f, body=ws[1])    # entry behind P's exit, body running away sideways
    if end == "none":
        return base + F, "aftercut-none/h%df%d%s" % (h, f, "/nocut" if flip else "")
    before = 0 if end == "head" else 1 + (v // 9) % 2
    if (end == "mid_closer") != (flip and end in ("mid_closer", "mid_farther")):
        d4, dw = sc.frac(0.03, 0.4), sc.frac(0.55, 0.98)
    elif end in ("mid_closer", "mid_farther"):
        d4, dw = sc.frac(0.55, 0.98), sc.frac(0.03, 0.4)
    else:
        d4, dw = sc.frac(0.05, 0.98), sc.frac(0.05, 0.98)
    e_t = sc.X[F[-1]] + d4 * _tilt(rng, ws[1], 10)
    wb, wa = sc.through(e_t, _perp(rng, ws[1]), before, int(rng.integers(0, 3)), dw)
    sc.edges.add((F[-1], wa[0]))
    other = wb + wa
    rows = (other + base + F) if (v // 2) % 2 else (base + other + F)
    return rows, "aftercut-%s/h%df%d/w%d%s" % (end, h, f, before, "/nocut" if flip else "")


def _meet(sc, v, F, w, end):
    """another chain whose member T has its entry within range of the last exit of F (end: head | mid_closer | mid_farther)."""
    rng = sc.rng
    before = 0 if end == "head" else 1 + (v // 4) % 2
    if end == "mid_closer":
        d4, dw = sc.frac(0.03, 0.4), sc.frac(0.55, 0.98)
    elif end == "mid_farther":
        d4, dw = sc.frac(0.55, 0.98), sc.frac(0.03, 0.4)
    else:
        d4, dw = sc.frac(0.05, 0.98), sc.frac(0.05, 0.98)
    e_t = sc.X[F[-1]] + d4 * _tilt(rng, w, 10)
    wb, wa = sc.through(e_t, _perp(rng, w), before, int(rng.integers(0, 3)), dw)
    sc.edges.add((F[-1], wa[0]))
    return wb + wa


def g_tail_cut(sc, v, f1_end, f2_end):
    """P->Y is cut by a closer L; the chain end P then gets a suffix partner F1 (farther, earlier rows) and later a closer F2:
    add_chain_suffix cuts the tail F1.. off again.  f1_end / f2_end: none | head | mid_closer | mid_farther = what the last exit
    of F1 / F2 meets (another chain, giving both-sided joins before / together with the tail cut)."""
    rng = sc.rng
    h, t = v % 3, int(rng.integers(0, 2))
    d1, d2 = sc.frac(0.35, 0.5), sc.frac(0.03, 0.25)
    d3a, d3b = sc.frac(0.85, 0.98), sc.frac(0.6, 0.75)
    if v % 8 == 5:                                # the later partner is the farther one: tail kept, F2 refused (not last, not better)
        d3a, d3b = d3b, d3a
    if v % 8 == 7:                                # L farther than P: no cut, P keeps Y, both late suitors are refused
        d1, d2 = d2, d1
    u = _rand_unit(rng)
    bef, aft = sc.through(np.zeros(3), u, h + 1, t, d1)
    P = bef[-1]
    ws = _perp_set(rng, u, 3)
    L = sc.attach_in(aft[0], d2, ws[0], int(rng.integers(1, 3)))
    rows = bef + aft + L
    lens = (1 + (v // 3) % 2, 1 + (v // 6) % 2)
    for d3, w, end, f in ((d3a, ws[1], f1_end, lens[0]), (d3b, ws[2], f2_end, lens[1])):
        th = np.radians(rng.uniform(25, 45))
        F = sc.attach_out(P, d3, -np.cos(th) * u + np.sin(th) * w, f, body=w)   # entry behind P's exit, body running away sideways
        other = _meet(sc, v, F, w, end) if end != "none" else []
        rows = (other + rows + F) if (other and (v // 2) % 2) else (rows + other + F)
    return rows, "tailcut-%s-%s/h%df%d%d%s" % (f1_end, f2_end, h, lens[0], lens[1], "/kept" if v % 8 == 5 else "/nocut" if v % 8 == 7 else "")


def g_same_target(sc, v):
    """a single particle Z lying anti-parallel next to X (X inside a chain): X.exit->Z.entry and Z.exit->X.entry both in range."""
    rng = sc.rng
    mode = ["suffix", "prefix_first", "prefix_cut", "prefix_reject"][v % 4]
    b = 0 if mode == "prefix_first" else (int(rng.integers(0, 3)) if mode == "suffix" else 1 + (v // 4) % 2)
    a = 1 + int(rng.integers(0, 2))
    u = _rand_unit(rng)
    d1 = sc.frac(0.03, 0.3)                       # X -> successor
    if mode == "suffix":
        dz1 = sc.frac(0.35, 0.6)
        dz2 = sc.frac(0.65, 0.98)
        dq = sc.frac(0.05, 0.98)
    else:
        dz1 = sc.frac(0.7, 0.98)
        dz2 = sc.frac(0.3, 0.6)
        dq = sc.frac(0.65, 0.98) if mode == "prefix_cut" else sc.frac(0.03, 0.25)
    # line: b members, X, a members;  X -> successor at d1, predecessor -> X at dq
    qb, xa = sc.through(np.zeros(3), u, b, a, dq, steps_after=[d1])
    Xp = xa[0]
    w = _perp(rng, u)
    Z = sc.raw(sc.X[Xp] + dz1 * w, sc.E[Xp] + dz2 * w)
    sc.edges.add((Xp, Z))
    sc.edges.add((Z, Xp))
    return qb + xa + [Z], "sametarget-%s/b%da%d" % (mode, b, a)


def g_bridge(sc, v):
    """a chain G (1..2) from near the exit of a_i to near the entry of a_j of the SAME already traced chain."""
    rng = sc.rng
    k = int(rng.integers(3, 7))
    u = _rand_unit(rng)
    steps = [sc.frac(0.05, 0.45) for _ in range(k)]
    ids = sc.fwd(np.zeros(3), u, k, steps)
    kind = ["insert", "back", "forward", "to_first"][(v // 3) % 4]
    i = int(rng.integers(0, k - 1))
    if kind == "insert":
        j = i + 1
    elif kind == "back":
        i = int(rng.integers(1, k - 1))
        j = int(rng.integers(1, i + 1))
    elif kind == "forward":
        i = int(rng.integers(0, max(1, k - 2)))
        j = min(k - 1, i + 2)
    else:
        i, j = int(rng.integers(0, k - 1)), 0
    mode = v % 3                                  # 0 suffix side closer, 1 prefix closer than a_{j-1}->a_j (cut), 2 prefix side wins but farther (reject)
    q = 1 + int(rng.integers(0, 2))
    if kind == "insert":
        q = 1                                     # two bridging particles between neighbours would see each other (unintended loop)
    elif i == j:
        q = 2
    ds = sc.frac(0.5, 0.7)
    if mode == 0:
        dp = sc.frac(0.75, 0.98)
    elif mode == 1:
        dp = sc.m + (steps[j - 1] - sc.m) * float(rng.uniform(0.1, 0.8)) if j > 0 else sc.frac(0.05, 0.45)
    else:
        dp = sc.frac(0.46, 0.49)
    G = sc.bridge(ids[i], ds, ids[j], dp, _perp(rng, u), q)
    return ids + G, "bridge-%s/k%di%dj%dq%d/m%d" % (kind, k, i, j, q, mode)


def g_ring(sc, v):
    """k particles on a closed ring (every exit has the next entry in range, the last closes onto the first), optionally an intruder."""
    rng = sc.rng
    k = 3 + v % 5
    lens = [sc.D * float(rng.uniform(1.7, 2.4)) for _ in range(k)]
    gaps = [sc.frac(0.3, 0.8) for _ in range(k)]
    chords = [c for pair in zip(lens, gaps) for c in pair]
    lo, hi = max(chords) / 2 * 1.0000001, sum(chords)
    for _ in range(80):
        r = 0.5 * (lo + hi)
        tot = sum(2 * np.arcsin(c / (2 * r)) for c in chords)
        lo, hi = (r, hi) if tot > 2 * np.pi else (lo, r)
    r = hi
    ang, ids = 0.0, []
    for t in range(k):
        e = r * np.array([np.cos(ang), np.sin(ang), 0.0])
        ang += 2 * np.arcsin(lens[t] / (2 * r))
        x = r * np.array([np.cos(ang), np.sin(ang), 0.0])
        ang += 2 * np.arcsin(gaps[t] / (2 * r))
        ids.append(sc.raw(e + rng.normal(size=3) * 1e-3 * sc.D, x))
    for t in range(k):
        sc.edges.add((ids[t], ids[(t + 1) % k]))
    s = int(rng.integers(0, k))
    rows = ids[s:] + ids[:s]
    if (v // 5) % 2:
        rows = [ids[int(x)] for x in rng.permutation(k)]
    tag = "ring%d/s%d" % (k, s)
    kind = (v // 10) % 3
    if kind:
        j = int(rng.integers(0, k))
        gap_in = float(np.linalg.norm(sc.X[ids[j - 1]] - sc.E[ids[j]]))
        d = sc.m + (gap_in - sc.m) * float(rng.uniform(0.1, 0.7)) if kind == 1 else gap_in + (sc.D - gap_in) * float(rng.uniform(0.2, 0.9))
        L = sc.attach_in(ids[j], d, np.array([0.0, 0.0, 1.0]) * (1 if v % 2 else -1), int(rng.integers(1, 3)))
        rows = rows + L
        tag += "/intruder%s@%d" % ("closer" if kind == 1 else "farther", j)
    return rows, tag


def g_min_shell(sc, v):
    """candidates inside min_distance (refused), alone or next to an admissible one (needs min_distance > 0)."""
    rng = sc.rng
    u = _rand_unit(rng)
    b = int(rng.integers(0, 3))
    kind = v % 3
    ws = _perp_set(rng, u, 2)
    main = sc.fwd(np.zeros(3), u, b + 1)
    Xp = main[-1]
    dclose = sc.m * float(rng.uniform(0.1, 0.9))
    close = sc.fwd(sc.X[Xp] + dclose * ws[0], ws[0], int(rng.integers(1, 3)))       # entry too close to X.exit: no link
    rows = main + close
    if kind >= 1:
        far = sc.attach_out(Xp, sc.frac(0.1, 0.9), ws[1], int(rng.integers(1, 3)))
        rows = main + close + far if kind == 1 else close + far + main
    return rows, "minshell%d/b%d" % (kind, b)


def g_cluster(sc, v, n, zero_disp=False):
    rng = sc.rng
    R = sc.D * float(rng.uniform(0.35, 1.5)) * n ** (1 / 3)
    E = rng.uniform(-R, R, (n, 3))
    if zero_disp:
        X = E.copy()
    else:
        X = E + rng.normal(size=(n, 3)) * float(rng.uniform(0.1, 1.6)) * sc.D
    rows = [sc.raw(E[k], X[k]) for k in range(n)]
    return rows, "cluster%d" % n


def g_suitors(sc, v, n):
    """hub explorer (no intended link set): a short line, then late pieces whose rows come later - a chain stealing the successor
    of a hub (turns the hub into a chain end), late suitors for a hub's exit (farther / closer than its partner), late chains
    arriving at a hub's entry, bridges between hubs."""
    rng = sc.rng
    rows = sc.fwd(np.zeros(3), _rand_unit(rng), int(rng.integers(2, 5)))
    hubs = [int(rng.integers(0, len(rows)))]

    def nearest_entry(t):
        d = np.linalg.norm(np.array(sc.E) - sc.X[t], axis=1)
        d[t] = np.inf
        ok = (d > sc.m) & (d <= sc.D)
        return (int(np.argmin(np.where(ok, d, np.inf))), float(d[ok].min())) if ok.any() else (None, None)

    while len(sc.E) < n:
        if rng.random() < 0.7:
            tgt = hubs[int(rng.integers(0, len(hubs)))]
        else:
            tgt = int(rng.integers(0, len(sc.E)))
            hubs.append(tgt)
        r, k, before = rng.random(), int(rng.integers(1, 3)), len(sc.E)
        y, dy = nearest_entry(tgt)
        if r < 0.35 and y is not None:
            sc.attach_in(y, sc.m + (dy - sc.m) * float(rng.uniform(0.1, 0.9)), _rand_unit(rng), k)
        elif r < 0.75:
            lo = dy if (y is not None and rng.random() < 0.7) else sc.m
            sc.attach_out(tgt, lo + (sc.D - lo) * float(rng.uniform(0.05, 0.98)), _rand_unit(rng), k, body=_rand_unit(rng))
            if rng.random() < 0.4:
                hubs.append(len(sc.E) - 1)
        elif r < 0.9:
            sc.attach_in(tgt, sc.frac(0.02, 0.99), _rand_unit(rng), k)
        else:
            sc.bridge(tgt, sc.frac(0.02, 0.99), hubs[int(rng.integers(0, len(hubs)))], sc.frac(0.02, 0.99), _rand_unit(rng), k)
        new = list(range(before, len(sc.E)))
        rows += new[::-1] if rng.random() < 0.5 else new
    return rows, "suitors%d/hubs%d" % (len(rows), len(set(hubs)))


def g_forest(sc, v, n):
    """random bipartite candidate forest over n entry sites and n exit sites (tree edges in range), sites paired into particles at random."""
    rng = sc.rng
    Ep, Xp, pts, origin = [], [], [], np.zeros(3)
    while len(Ep) < n or len(Xp) < n:
        need_e, need_x = n - len(Ep), n - len(Xp)
        cand = [q for q in pts if (q[0] == "X" and need_e) or (q[0] == "E" and need_x)]
        if not cand or rng.random() < 0.12:
            origin = origin + np.array([6 * sc.D, 0.0, 0.0]) + rng.normal(size=3) * sc.D
            t, pos, pts = ("E" if (need_e and (not need_x or rng.random() < 0.5)) else "X"), origin.copy(), []
        else:
            par = cand[int(rng.integers(0, len(cand)))] if rng.random() < 0.6 else cand[-1]
            t = "E" if par[0] == "X" else "X"
            pos = par[1] + sc.frac(0.02, 0.99) * _rand_unit(rng)
        pts.append((t, pos))
        (Ep if t == "E" else Xp).append(pos)
    pe, px = rng.permutation(n), rng.permutation(n)
    rows = [sc.raw(Ep[int(a)], Xp[int(b)]) for a, b in zip(pe, px)]
    return rows, "forest%d" % n


GADGETS = {
    "line_mid_start": g_line,
    "prefix_cut": lambda sc, v: g_prefix(sc, v, "cut"),
    "prefix_reject": lambda sc, v: g_prefix(sc, v, "reject"),
    "prefix_first": lambda sc, v: g_prefix(sc, v, "first"),
    "heads_compete": g_heads_compete,
    "suffix_reject_fork": g_fork,
    "suffix_after_cut": lambda sc, v: g_after_cut(sc, v, "none"),
    "both_sides_nocut": lambda sc, v: g_after_cut(sc, v, "head"),
    "both_sides_cut": lambda sc, v: g_after_cut(sc, v, "mid_closer"),
    "both_sides_reject": lambda sc, v: g_after_cut(sc, v, "mid_farther"),
    "bend_back_after_cut": lambda sc, v: g_after_cut(sc, v, "back"),
    "tail_cut": lambda sc, v: g_tail_cut(sc, v, "none", "none"),
    "tail_cut_after_join": lambda sc, v: g_tail_cut(sc, v, ["head", "mid_closer", "mid_farther"][(v // 3) % 3], ["none", "head"][(v // 9) % 2]),
    "tail_cut_with_join": lambda sc, v: g_tail_cut(sc, v, ["none", "head"][(v // 9) % 2], ["mid_closer", "head", "mid_farther"][(v // 3) % 3]),
    "same_target_single": g_same_target,
    "same_chain_bridge": g_bridge,
    "closed_ring": g_ring,
    "min_distance_shell": g_min_shell,
}
DESIGNED = list(GADGETS)


def _build_gadget(rng, name, v, D, m, tries=40):
    """build one gadget and make sure its candidate links are exactly the intended ones; deterministic in the rng stream."""
    for _ in range(tries):
        sc = Scene(rng, D, m)
        rows, tag = GADGETS[name](sc, v)
        E, X = np.array(sc.E), np.array(sc.X)
        d = np.sqrt(((X[:, None, :] - E[None, :, :]) ** 2).sum(axis=2))
        np.fill_diagonal(d, np.inf)
        got = {(int(i), int(j)) for i, j in np.argwhere((d > m) & (d <= D))}
        if got == sc.edges and sorted(rows) == list(range(len(E))):
            return E, X, rows, tag
    return None


# ---- case assembly --------------------------------------------------------------------------------
def _assemble(rng, parts, ntomo, D, overlap):
    """parts: list of (E, X, rows, tag).  Random rigid motion per part, parts of one tomogram kept > 3*D apart, rows riffled."""
    tomo_of, placed = [], []
    cursor = np.zeros((ntomo, 3))
    for k, (E, X, rows, tag) in enumerate(parts):
        t = k % ntomo if k < ntomo else int(rng.integers(0, ntomo))
        R = so3.random_rotations(rng, 1)[0]
        c = 0.5 * (E.mean(axis=0) + X.mean(axis=0))
        E2, X2 = (E - c) @ R.T, (X - c) @ R.T
        rad = float(max(np.linalg.norm(E2, axis=1).max(), np.linalg.norm(X2, axis=1).max()))
        if overlap:
            off = rng.normal(size=3) * 0.3 * D
        else:
            cursor[t, 0] += rad + 1.6 * D
            off = cursor[t].copy() + np.array([0.0, *rng.uniform(-2, 2, 2)]) * D
            cursor[t, 0] += rad + 1.6 * D
        placed.append((E2 + off, X2 + off, rows))
        tomo_of.append(t)
    # row order: per-part sequences riffled (relative order inside a part is what the tracer's start order depends on)
    seqs = [[(k, r) for r in rows] for k, (_, _, rows) in enumerate(placed)]
    if rng.random() < 0.5:
        order = [p for s in seqs for p in s]
    else:
        order, ptr = [], [0] * len(seqs)
        left = [len(s) for s in seqs]
        while sum(left):
            k = int(rng.choice(len(seqs), p=np.array(left) / sum(left)))
            order.append(seqs[k][ptr[k]])
            ptr[k] += 1
            left[k] -= 1
    E = np.array([placed[k][0][r] for k, r in order])
    X = np.array([placed[k][1][r] for k, r in order])
    tomo_idx = np.array([tomo_of[k] for k, _ in order])
    shift0 = rng.uniform(50, 400, 3)
    return E + shift0, X + shift0, tomo_idx


def _tables(rng, E, X, tomo_idx, pres):
    n = len(E)
    tl = np.sort(rng.choice(np.arange(1, 300), size=int(tomo_idx.max()) + 1, replace=False)).astype(float)
    if pres.get("tomo_ids") in ("adjacent_1e5", "adjacent_2p24"):
        tl = {"adjacent_1e5": 100000.0 * float(rng.integers(1, 9)), "adjacent_2p24": 2.0 ** 24}[pres["tomo_ids"]] + 1.0 + np.arange(len(tl), dtype=float)
    if pres.get("tomo_ids") == "zero_based":
        tl = np.arange(len(tl), dtype=float)           # a tomogram whose id is 0
    rng.shuffle(tl)
    de = gens.motl_table(rng, n, tomos=1)
    dx = gens.motl_table(rng, n, tomos=1)
    ids = np.arange(1, n + 1, dtype=float)
    if pres["ids"] == "seq0":
        ids = np.arange(0, n, dtype=float)            # an id that is 0
    if pres["ids"] == "shuffled_gaps":
        ids = rng.permutation(rng.choice(np.arange(1, 40 * n + 50), n, replace=False)).astype(float)
    elif pres["ids"] in ("big100k", "big17M", "big2p24", "big2p31", "near2p53"):
        # the common tomogram*100000 + n numbering / ids around float32 and int32 limits and just below 2**53: consecutive numbers (adjacent
        # integers that a tolerant comparison or a narrower dtype would merge), in row order or shuffled over the rows
        base_id = {"big100k": 100000.0 * float(rng.integers(1, 40)), "big17M": 17000000.0, "big2p24": 2.0 ** 24 - float(rng.integers(0, 3)),
                   "big2p31": 2.0 ** 31 - float(rng.integers(0, 3)), "near2p53": 2.0 ** 53 - 70.0}[pres["ids"]]
        ids = base_id + np.arange(1, n + 1, dtype=float)
        if rng.random() < 0.5:
            ids = rng.permutation(ids)
    for d, P in ((de, E), (dx, X)):
        d["subtomo_id"] = ids
        d["tomo_id"] = tl[tomo_idx]
        base = np.round(P) if rng.random() < 0.7 else np.round(P + rng.uniform(-3, 3, P.shape))
        d[["x", "y", "z"]] = base
        d[["shift_x", "shift_y", "shift_z"]] = P - base
        if not pres["dirty"]:
            d["object_id"], d["geom2"], d["geom4"] = 0.0, 0.0, 0.0
        else:
            d["object_id"] = rng.choice([-1.0, 0.0, 1.0, 2.0, 7.0], n)
            d["geom2"] = rng.integers(-2, 9, n).astype(float)
            d["geom4"] = rng.uniform(0, 80, n).round(3)
    if pres["form"] in ("em", "em_df"):
        de = de.astype(np.float32).astype(np.float64)
        if pres["form"] == "em":
            dx = dx.astype(np.float32).astype(np.float64)
    if pres.get("int_ids"):
        for d in (de, dx):
            d["subtomo_id"] = d["subtomo_id"].astype(np.int64)
            d["tomo_id"] = d["tomo_id"].astype(np.int64)
    return de, dx


def _second_exit(rng, dx, Xpos, tomo, D, kind, pres, is_em=None):
    """an exit list for a second call with the SAME entry list: exit sites handed round inside each tomogram ('permuted'), or half of them
    moved away by 3..6 max_distance ('moved'); every former exit position then lies where the new list has another (or no) exit."""
    X2 = Xpos.copy()
    if kind == "permuted":
        for t in np.unique(tomo):
            rows = np.flatnonzero(tomo == t)
            if len(rows) > 1:
                X2[rows] = Xpos[np.roll(rows, int(rng.integers(1, len(rows))))] if rng.random() < 0.5 else Xpos[rng.permutation(rows)]
    else:
        mv = rng.random(len(X2)) < 0.5
        if not mv.any():
            mv[int(rng.integers(0, len(X2)))] = True
        dirs = rng.normal(size=(int(mv.sum()), 3))
        dirs /= np.linalg.norm(dirs, axis=1, keepdims=True)
        step = dirs * rng.uniform(3, 6, (int(mv.sum()), 1)) * D
        X2[mv] = Xpos[mv] + (np.round(step) if np.all(Xpos * 8 == np.round(Xpos * 8)) else step)
    dx2 = dx.copy()
    base = np.round(X2)
    dx2[["x", "y", "z"]] = base
    dx2[["shift_x", "shift_y", "shift_z"]] = X2 - base
    if (pres["form"] == "em") if is_em is None else is_em:
        dx2 = dx2.astype(np.float32).astype(np.float64)
        if pres.get("int_ids"):
            dx2["subtomo_id"] = dx2["subtomo_id"].astype(np.int64)
            dx2["tomo_id"] = dx2["tomo_id"].astype(np.int64)
    return dx2


def _is_df(form, which, i):
    """is this argument handed over as a plain DataFrame?"""
    if form == "df":
        return True
    if form == "mixed":
        return not ((which == "exit") == bool(i % 2))
    return form == "em_df" and which == "exit"


def _index(rng, df, kind):
    n = len(df)
    if kind == "strings":
        df.index = ["p%03d" % k for k in rng.permutation(n)]
        return df
    if kind == "repeated":                          # what pd.concat([a, b]) without ignore_index leaves behind
        k = int(rng.integers(1, n)) if n > 1 else 1
        df.index = np.concatenate([np.arange(k), np.arange(n - k)])
        return df
    if kind == "permuted":
        df.index = rng.permutation(n)
    elif kind == "gaps":
        df.index = np.sort(rng.choice(np.arange(3 * n + 5), n, replace=False)) + 2
    elif kind == "reversed":
        df.index = np.arange(n)[::-1]
    return df


_SHELLS = {}


def _shell(r2):
    """all integer vectors v with |v|^2 == r2 (cached)."""
    if r2 not in _SHELLS:
        r = int(np.floor(np.sqrt(r2))) + 1
        g = np.arange(-r, r + 1)
        a, b, c = np.meshgrid(g, g, g, indexing="ij")
        k = (a * a + b * b + c * c) == r2
        _SHELLS[r2] = np.stack([a[k], b[k], c[k]], axis=1)
    return _SHELLS[r2]


def _lattice_case(rng, v):
    """integer lattice (scaled by a power of two), integral min_distance > 0 and max_distance; stations plant candidate entries
    EXACTLY at min_distance (axis-aligned and Pythagorean offsets: must not be linked), exactly at max_distance (may be linked), just
    beyond max, inside min and in between, around an exit; plus a random lattice cloud full of ties.  -> E, X, tomo_idx, D, m, tags"""
    m = int([5, 0, 3, 10, 0, 13, 6, 9, 0, 7, 15][v % 11])          # 0: the candidate 'exactly at min' is an entry site ON the exit site
    D = m + int(rng.integers(2, 13))
    nst = int(rng.integers(1, 5))
    ntomo = int(rng.integers(1, 4))
    E, X, T, tags = [], [], [], []
    axes = np.eye(3, dtype=int)
    for st in range(nst):
        org = np.array([st * 12 * D, int(rng.integers(-3, 4)) * D, int(rng.integers(-3, 4)) * D])
        a1, a2 = (int(q) for q in rng.choice(3, 2, replace=False))
        sgn = int(rng.choice([-1, 1]))
        x_s = org.copy()
        e_s = x_s - sgn * (3 * D + 1) * axes[a1]
        kinds = ["min"]
        kinds += [k for k in ("between", "max", "beyond", "inside", "min") if rng.random() < 0.5]
        if st == 0 and v % 2 == 0:
            kinds = ["min", "max"] if v % 4 == 0 else ["min", "between"]
        cand = []
        for kd in kinds:
            if kd == "min":
                sh = _shell(m * m)
                vec = sh[int(rng.integers(0, len(sh)))] if rng.random() < 0.7 else m * axes[int(rng.integers(0, 3))] * int(rng.choice([-1, 1]))
            elif kd == "max":
                sh = _shell(D * D)
                vec = sh[int(rng.integers(0, len(sh)))]
            elif kd == "beyond":
                sh = _shell(D * D + int(rng.integers(1, 2 * D)))
                if len(sh) == 0:
                    continue
                vec = sh[int(rng.integers(0, len(sh)))]
            elif kd == "inside":
                vec = rng.integers(-(m // 2), m // 2 + 1, 3)
                if int((vec * vec).sum()) == 0 or int((vec * vec).sum()) >= m * m:
                    continue
            else:
                r2 = int(rng.integers(m * m + 1, D * D))
                sh = _shell(r2)
                if len(sh) == 0:
                    continue
                vec = sh[int(rng.integers(0, len(sh)))]
            e_c = x_s + np.asarray(vec, dtype=int)
            cand.append((e_c, e_c + int(rng.choice([-1, 1])) * (4 * D + len(cand)) * axes[a2]))
        order = (v // 2 + st) % 3               # source first / candidates first / source in the middle
        block = [(e_s, x_s)]
        block = block + cand if order == 0 else cand + block if order == 1 else cand[:1] + block + cand[1:]
        for e_, x_ in block:
            E.append(e_)
            X.append(x_)
            T.append(st % ntomo)
        tags.append("station:%s/o%d" % ("+".join(kinds), order))
    ncloud = int(rng.integers(0, 14)) if len(E) >= 2 else int(rng.integers(2, 14))
    if ncloud:
        box = int(rng.integers(1, 3)) * D
        org = np.array([0, 40 * D, 0])
        pts = np.unique(rng.integers(0, box + 1, (ncloud, 3)), axis=0)
        rng.shuffle(pts)
        tcl = int(rng.integers(0, ntomo))
        for q in pts:
            E.append(org + q)
            X.append(org + q + rng.integers(-max(m, 2), max(m, 2) + 1, 3) * int(rng.random() < 0.8))
            T.append(tcl)
        tags.append("cloud%d" % len(pts))
    E, X, T = np.array(E, dtype=float), np.array(X, dtype=float), np.array(T, dtype=int)
    if len(E) > 60:
        E, X, T = E[:60], X[:60], T[:60]
    _, T = np.unique(T, return_inverse=True)
    scale = float([1.0, 1.0, 0.5, 0.125, 2.0, 1.0][(v // 8 + int(rng.integers(0, 6))) % 6])
    perm = np.concatenate([np.flatnonzero(T == t) for t in rng.permutation(int(T.max()) + 1)]) if rng.random() < 0.5 else np.arange(len(E))
    shift = rng.integers(20, 300, 3).astype(float)
    return (E[perm] + shift) * scale, (X[perm] + shift) * scale, np.asarray(T).reshape(-1)[perm], float(D * scale), float(m * scale), tags


SLIVERS = [1e-12, 1e-9, 3e-8, 8e-8, 1.1e-7, 1e-6]
SLIVER_KINDS = ["max+", "min-", "max+", "max-", "max+", "min+", "max+", "min-", "max-", "max+"]


def _sliver_case(rng, v):
    """stations with the NEAREST admissible-looking candidate planted a relative hair beyond / inside a bound: at max_distance*(1+d) and
    min_distance*(1-d) (a link there violates link_range), at max_distance*(1-d) and min_distance*(1+d) (a link there is fine), for
    d in SLIVERS, dyadic and non-dyadic bounds, axis-aligned and oblique offsets; decided by comparing float64 distances (no tie involved).
    -> E, X, tomo_idx, D, m, tags, plants [(row of source, row of candidate, kind, d)]"""
    D = float([10.0, 12.5, 7.3, 100.0 / 3.0, 0.7, 21.0, 4.1, 57.29][v % 8])
    m = D * float([0.3, 0.41, 0.0, 0.137, 0.25, 1.0 / 3.0][(v // 2) % 6])
    nst = int(rng.integers(5, 10))
    ntomo = int(rng.integers(1, 4))
    E, X, T, tags, plants = [], [], [], [], []
    axes = np.eye(3)
    for st in range(nst):
        kind = SLIVER_KINDS[(v * 3 + st) % len(SLIVER_KINDS)]
        if m == 0.0 and kind.startswith("min"):
            kind = "zero"                         # min_distance 0: an entry site exactly ON the exit site (distance 0 is outside (0, max])
        dl = SLIVERS[(v + st * 5 + st // 6) % len(SLIVERS)]
        org = np.array([st * 14.0 * D, float(rng.integers(-3, 4)) * D, float(rng.integers(-3, 4)) * D]) + rng.uniform(50, 400, 3).round(int(rng.integers(0, 4)))
        a1, a2 = (int(q) for q in rng.choice(3, 2, replace=False))
        x_s = org
        e_s = x_s - (3.0 * D + 1.0) * axes[a1] * float(rng.choice([-1, 1]))
        u = axes[int(rng.integers(0, 3))] * float(rng.choice([-1, 1])) if rng.random() < 0.5 else _rand_unit(rng)
        dist = {"max+": D * (1 + dl), "max-": D * (1 - dl), "min-": m * (1 - dl), "min+": m * (1 + dl), "zero": 0.0}[kind]
        block = [(e_s, x_s)]
        e_c = x_s + dist * u
        cands = [(e_c, e_c + 4.0 * D * axes[a2] * float(rng.choice([-1, 1])))]
        if kind in ("min-", "zero") and rng.random() < 0.5:
            w = _perp(rng, u)
            e_f = x_s + (m + (D - m) * float(rng.uniform(0.2, 0.9))) * w          # an admissible, farther candidate
            cands.append((e_f, e_f + 5.0 * D * w))
        if kind == "max+" and m > 0 and rng.random() < 0.3:
            w = _perp(rng, u)
            e_f = x_s + m * float(rng.uniform(0.2, 0.8)) * w                      # a decoy inside min_distance
            cands.append((e_f, e_f + 5.0 * D * w))
        order = (v + st) % 2                      # source first (tracing / suffix query) or candidates first (prefix query)
        rows0 = len(E)
        seq = block + cands if order == 0 else cands + block
        for e_, x_ in seq:
            E.append(e_)
            X.append(x_)
            T.append(st % ntomo)
        src = rows0 if order == 0 else rows0 + len(cands)
        cnd = rows0 + 1 if order == 0 else rows0
        plants.append((src, cnd, kind, dl))
        tags.append("%s%g/o%d" % (kind, dl, order))
    E, X, T = np.array(E), np.array(X), np.array(T, dtype=int)
    _, T = np.unique(T, return_inverse=True)
    return E, X, np.asarray(T).reshape(-1), D, m, tags, plants


_SYMS = None


def _lattice_symmetries():
    global _SYMS
    if _SYMS is None:
        import itertools
        _SYMS = [np.array([[sg[r] if c == pm[r] else 0 for c in range(3)] for r in range(3)]) for pm in itertools.permutations(range(3))
                 for sg in itertools.product([1, -1], repeat=3)]
    return _SYMS


def _tie_gadget(rng, D, m, kind, h, q, t):
    """integer coordinates: b_0..b_h -> Y -> tail traced first, L cuts in front of Y (b_h becomes a chain end), then the chain n (q members)
    fits AFTER b_h (exit b_h -> entry n: a) and BEFORE b_0 (exit n -> entry b_0: a2) - both ends on the SAME chain.  kind 'equal': a == a2
    exactly (two integer vectors of one shell), 'suffix_closer' / 'prefix_closer': unequal controls.  -> (E, X) int arrays in row order, or None"""
    B = 2 * D + 1
    E, X, edges = [], [], set()
    x = 0
    for k in range(h + 1):
        E.append([x, 0, 0]); X.append([x + B, 0, 0])
        if k:
            edges.add((k - 1, k))
        x = x + B + int(rng.integers(m + 2, D - 1)) if k < h else x + B
    P = h
    d1 = int(rng.integers(m + 3, D - 3))
    a = int(rng.integers(d1 + 1, D + 1))
    if kind == "equal":
        a2 = a
    elif kind == "suffix_closer":
        if a >= D:
            a = D - 1
        a2 = int(rng.integers(a + 1, D + 1))
    else:
        a2 = int(rng.integers(m + 1, a))
    if not (d1 < a <= D and m < a2 <= D):
        return None
    x_y = x + d1
    for k in range(1 + t):
        E.append([x_y, 0, 0]); X.append([x_y + B, 0, 0])
        edges.add((len(E) - 2, len(E) - 1))
        x_y = x_y + B + int(rng.integers(m + 2, D - 1))
    Y = h + 1
    d2 = int(rng.integers(m + 1, d1))
    E.append([E[Y][0], d2 + B, 0]); X.append([E[Y][0], d2, 0])
    edges.add((len(E) - 1, Y))
    s1, s2 = _shell(a * a), _shell(a2 * a2)
    v1, v2 = s1[int(rng.integers(0, len(s1)))], s2[int(rng.integers(0, len(s2)))]
    e_n = np.array(X[P]) + v1
    x_n = np.array(E[0]) + v2
    if q == 1:
        E.append(e_n.tolist()); X.append(x_n.tolist())
        edges.add((P, len(E) - 1)); edges.add((len(E) - 1, 0))
    else:
        w = np.array([0, 0, 1]) * int(rng.choice([-1, 1]))
        g = int(rng.integers(m + 1, D))
        x1 = e_n + w * B
        E.append(e_n.tolist()); X.append(x1.tolist())
        E.append((x1 + w * g).tolist()); X.append(x_n.tolist())
        edges.add((P, len(E) - 2)); edges.add((len(E) - 2, len(E) - 1)); edges.add((len(E) - 1, 0))
    E, X = np.array(E, dtype=float), np.array(X, dtype=float)
    d2m = ((X[:, None, :] - E[None, :, :]) ** 2).sum(axis=2)
    np.fill_diagonal(d2m, np.inf)
    got = {(int(i), int(j)) for i, j in np.argwhere((d2m > m * m) & (d2m <= D * D))}
    if got != edges or (m == 0 and (d2m == 0).any()):
        return None
    return E, X


def _tie_case(rng, v):
    """2..4 tie gadgets (random lattice symmetry, integer translation, tomograms round robin), optionally lattice stations, power-of-two scale"""
    D = int(rng.integers(12, 24))
    m = int([0, 2, 0, 1, 3, 0][v % 6])
    ng = int(rng.integers(2, 5))
    ntomo = int(rng.integers(1, 4))
    E, X, T, tags = [], [], [], []
    for g in range(ng):
        kind = ["equal", "equal", "equal", "suffix_closer", "equal", "prefix_closer"][(v + g) % 6]
        h, q, t = (v + g) % 3, 1 + ((v // 3 + g) % 2), int(rng.integers(0, 2))
        got = None
        for _ in range(60):
            got = _tie_gadget(rng, D, m, kind, h, q, t)
            if got is not None:
                break
        if got is None:
            continue
        M = _lattice_symmetries()[int(rng.integers(0, 48))]
        off = np.array([g * 40 * D, int(rng.integers(-5, 6)) * D, int(rng.integers(-5, 6)) * D])
        for e_, x_ in zip(got[0] @ M.T + off, got[1] @ M.T + off):
            E.append(e_); X.append(x_); T.append(g % ntomo)
        tags.append("tie-%s/h%dq%dt%d" % (kind, h, q, t))
    if m == 0:
        # a lone pair whose exit/entry sites coincide (distance 0 with min_distance 0: must stay unlinked), both row orders
        p0 = np.array([-5 * D, 13 * D, -9 * D])
        pair = [(p0 - np.array([3 * D, 0, 0]), p0), (p0, p0 + np.array([0, 3 * D + 1, 0]))]
        for e_, x_ in (pair if v % 2 else pair[::-1]):
            E.append(e_.astype(float)); X.append(x_.astype(float)); T.append(0)
        tags.append("coincident-pair")
    nl = int(rng.integers(0, 5))
    for k in range(nl):
        p0 = np.array([-(k + 2) * 9 * D, int(rng.integers(-3, 4)) * 7 * D, 11 * D])
        E.append(p0.astype(float)); X.append((p0 + np.array([0, 0, 3 * D + k])).astype(float)); T.append(int(rng.integers(0, ntomo)))
    if nl:
        tags.append("lone%d" % nl)
    E, X, T = np.array(E, dtype=float), np.array(X, dtype=float), np.array(T, dtype=int)
    if len(E) == 0:
        return None
    E, X, T = E[:60], X[:60], T[:60]
    _, T = np.unique(T, return_inverse=True)
    T = np.asarray(T).reshape(-1)
    # rows: blocks of one tomogram keep their order; tomogram blocks interleaved or not
    perm = np.concatenate([np.flatnonzero(T == tt) for tt in rng.permutation(int(T.max()) + 1)]) if rng.random() < 0.5 else np.arange(len(E))
    scale = float([1.0, 0.5, 1.0, 0.125, 2.0, 1.0][(v // 6 + int(rng.integers(0, 6))) % 6])
    shift = rng.integers(20, 300, 3).astype(float)
    return (E[perm] + shift) * scale, (X[perm] + shift) * scale, T[perm], float(D * scale), float(m * scale), tags


def gen(ctx, i, cls):
    rng = ctx.rng(i)
    v = i // len(CLASSES)
    big = ctx.tier == "thorough"
    for attempt in range(60):
        D = float(rng.choice([4.0, 7.5, 10.0, 25.0, 60.0])) if rng.random() < 0.5 else float(rng.uniform(4, 60))
        m = 0.0 if rng.random() < 0.45 else D * float(rng.uniform(0.05, 0.45))
        if cls == "min_distance_shell" and m == 0.0:
            m = D * float(rng.uniform(0.1, 0.45))
        ntomo = int(rng.integers(1, 4))
        budget = int(rng.integers(8, 61)) if (big or rng.random() < 0.4) else int(rng.integers(4, 30))
        parts, tags, designed, overlap = [], [], True, False
        lat, plants = None, None
        if cls == "lattice_ties":
            lat = _lattice_case(rng, v)
        elif cls in ("bound_slivers", "bound_slivers_2"):
            sl = _sliver_case(rng, v if cls == "bound_slivers" else v + 5)
            lat, plants = sl[:6], sl[6]
        elif cls in ("same_chain_exact_tie", "same_chain_exact_tie_2"):
            lat = _tie_case(rng, v if cls == "same_chain_exact_tie" else v + 3)
            if lat is None:
                continue
        # block-boundary particle counts (2**k - 1, 2**k, 2**k + 1, KD-tree leaf size 40 +- 1, the largest count of the quantifier) in ONE tomogram
        block_n = None
        if cls in ("random_cluster", "late_suitors", "candidate_forest", "zero_displacement") and v % 2 == 0:
            block_n = [60, 33, 32, 31, 41, 40, 59, 17, 16, 15, 39, 9, 8, 7, 58][(v // 2) % 15]
            ntomo, budget = 1, block_n
        if cls in GADGETS:
            names = [cls]
        elif cls == "odd_ids_index":
            names = [DESIGNED[(v * 7 + 3) % len(DESIGNED)]]
        elif cls == "second_call_moved_exits":
            names = [[g for g in DESIGNED if g != "min_distance_shell"][(v * 5 + 1) % (len(DESIGNED) - 1)]]
        elif cls == "tiny":
            names = []
        else:
            names = []
        if lat is not None:
            designed = False
        elif cls in ("late_suitors", "candidate_forest"):
            designed = False
            left = min(60, max(4, budget))
            for t in range(ntomo):
                nn = left if t == ntomo - 1 else int(rng.integers(2, max(3, left - 2 * (ntomo - 1 - t) + 1)))
                nn = max(2, min(nn, left - 2 * (ntomo - 1 - t)))
                sc = Scene(rng, D, m)
                rows, tag = (g_suitors if cls == "late_suitors" else g_forest)(sc, v, nn)
                rows = rows[:nn]
                parts.append((np.array(sc.E)[rows], np.array(sc.X)[rows], list(range(len(rows))), tag))
                left -= len(rows)
                if left < 2:
                    break
            ntomo = len(parts)
        elif cls in ("random_cluster", "zero_displacement"):
            designed = False
            ndup = int(rng.integers(1, 4)) if v % 3 == 1 else 0     # exact duplicates: particles with identical entry and exit sites, other ids
            budget = max(2, budget - ndup)
            if cls == "zero_displacement" and rng.random() < 0.5:
                D, m = float(rng.choice([10000.0, 500.0])), 0.0
            left = min(60, max(2, budget))
            for t in range(ntomo):
                nn = left if t == ntomo - 1 else int(rng.integers(1, max(2, left - (ntomo - 1 - t))))
                nn = max(1, min(nn, left - (ntomo - 1 - t)))
                sc = Scene(rng, D, m)
                rows, tag = g_cluster(sc, v, nn, zero_disp=(cls == "zero_displacement"))
                if ndup and t == 0:
                    for q in rng.integers(0, nn, ndup):
                        rows.append(sc.raw(sc.E[int(q)].copy(), sc.X[int(q)].copy()))
                    rows = [rows[int(q)] for q in rng.permutation(len(rows))]
                    tag += "+dup%d" % ndup
                parts.append((np.array(sc.E), np.array(sc.X), rows, tag))
                left -= nn
                if left <= 0:
                    break
            ntomo = len(parts)
        elif cls == "tomo_overlap":
            designed, overlap = False, True
            ntomo = int(rng.integers(2, 4))
            per = max(2, min(20, budget // ntomo))
            for t in range(ntomo):
                sc = Scene(rng, D, m)
                if v % 2:
                    rows, tag = g_cluster(sc, v, per)
                    parts.append((np.array(sc.E), np.array(sc.X), rows, tag))
                else:
                    g = _build_gadget(rng, DESIGNED[(v // 2 + t) % len(DESIGNED)] if DESIGNED[(v // 2 + t) % len(DESIGNED)] != "min_distance_shell" or m > 0 else "prefix_cut", v + t, D, m)
                    if g is None:
                        break
                    parts.append(g)
            if len(parts) != ntomo:
                continue
        elif cls == "tiny":
            # 2..4 particles: pairs in range one way, both ways, out of range, inside min_distance; with lone-particle tomograms
            n = 2 + v % 3
            sc = Scene(rng, D, m)
            kind = (v // 3) % 4
            u = _rand_unit(rng)
            if kind == 0:
                rows = sc.fwd(np.zeros(3), u, n)
            elif kind == 1:
                rows = sc.fwd(np.zeros(3), u, n)[::-1]
            elif kind == 2:
                a = sc.raw(np.zeros(3), u * D * 0.7)
                b = sc.raw(u * D * 0.7 + _perp(rng, u) * sc.frac(0.2, 0.9), _perp(rng, u) * sc.frac(0.2, 0.9))
                rows = [a, b] + [sc.raw(u * D * (9 + 5 * k), u * D * (11 + 5 * k)) for k in range(n - 2)]
            else:
                rows = [sc.raw(u * D * 5 * k, u * D * (5 * k + 2)) for k in range(n)]
            designed = False
            parts.append((np.array(sc.E), np.array(sc.X), rows, "tiny%d/%d" % (n, kind)))
            if ntomo > 1:
                for t in range(ntomo - 1):
                    sc2 = Scene(rng, D, m)
                    parts.append((np.zeros((1, 3)), _rand_unit(rng)[None, :] * D, [0], "lone"))
        else:
            ok = True
            for nm in names:
                g = _build_gadget(rng, nm, v, D, m)
                if g is None:
                    ok = False
                    break
                parts.append(g)
            if not ok:
                continue
            # secondary gadgets / fillers up to the budget
            used = sum(len(p[0]) for p in parts)
            guard = 0
            while used < budget - 3 and guard < 6:
                guard += 1
                r = rng.random()
                if r < 0.35:
                    k = int(rng.integers(1, 4))
                    sc = Scene(rng, D, m)
                    rows = [sc.raw(_rand_unit(rng) * D * 6 * (q + 1), _rand_unit(rng) * D * 6 * (q + 1) + _rand_unit(rng) * D * float(rng.uniform(0.2, 2.5))) for q in range(k)]
                    g = (np.array(sc.E), np.array(sc.X), rows, "lone%d" % k)
                    d = np.sqrt(((g[1][:, None] - g[0][None]) ** 2).sum(axis=2))
                    np.fill_diagonal(d, np.inf)
                    if ((d > m) & (d <= D)).any():
                        continue
                else:
                    nm = DESIGNED[int(rng.integers(0, len(DESIGNED)))]
                    if nm == "min_distance_shell" and m == 0.0:
                        continue
                    g = _build_gadget(rng, nm, int(rng.integers(0, 1000)), D, m)
                    if g is None:
                        continue
                if used + len(g[0]) > min(60, budget + 6):
                    continue
                parts.append(g)
                used += len(g[0])
        if lat is not None:
            E, X, tomo_idx, D, m, lat_tags = lat
            if len(E) < 2:
                continue
        else:
            if sum(len(p[0]) for p in parts) < 2:
                parts.append((np.zeros((1, 3)), _rand_unit(rng)[None, :] * D * 0.5, [0], "lone"))
            n_total = sum(len(p[0]) for p in parts)
            if n_total > 60 or n_total < 2:
                continue
            ntomo = min(ntomo, len(parts))
            E, X, tomo_idx = _assemble(rng, parts, ntomo, D, overlap)
        # presentation
        odd = cls == "odd_ids_index"
        ci = CLASSES.index(cls)
        form = ["motl", "df", "motl", "mixed", "em", "motl", "df", "em_df"][(v + 3 * ci) % 8] if not odd else ["motl", "mixed", "motl", "df"][v % 4]
        ipair = [("range", "permuted"), ("gaps", "reversed"), ("permuted", "gaps"), ("reversed", "range"), ("range", "range"), ("permuted", "permuted"),
                 ("strings", "range"), ("gaps", "gaps")][(v // 2 + ci) % 8]
        if odd and ipair == ("range", "range"):
            ipair = ("permuted", "gaps")
        pres = {"form": form,
                "ids": ID_KINDS[(v + ci) % len(ID_KINDS)] if not odd else ["shuffled_gaps", "big100k", "big17M", "big2p31"][v % 4],
                "tomo_ids": ["small", "adjacent_1e5", "zero_based", "adjacent_2p24", "small"][(v // 3 + ci) % 5],
                "int_ids": bool(rng.random() < 0.3),
                "index_e": ipair[0], "index_x": ipair[1],
                "dirty": bool(rng.random() < 0.4), "kw": bool(rng.random() < 0.5), "min_default": bool(m == 0.0 and rng.random() < 0.5),
                "int_min": False,
                # shape of the arguments (values unchanged): dtype of the bookkeeping columns, column order, block layout, attrs, file names, scalar kinds
                "book_dtype": ["float", "int64", "float", "int32", "int_table", "int64"][(v + 2 * ci) % 6],
                "col_order": ["canonical", "reversed", "permuted"][(v // 2 + ci) % 3],
                "layout": ["columns", "single_block", "single_block_readonly", "fortran_block"][(v + ci) % 4],
                "attrs": bool((v + ci) % 3 == 0),
                "path_kind": ["plain", "ribosome.em", "frame.em", "subdir_special", "noext", "relative"][(v + ci) % 6],
                "loader_object": bool((v // 2 + ci) % 3 == 0),
                "min_style": (["omitted", "pos_int0", "kw_float0", "np_int64", "neg_zero", "np_float64", "zero_d"][(v + ci) % 7] if m == 0.0
                              else ["float", "np_float64", "zero_d", "float"][(v + ci) % 4]),
                "max_style": ["float", "np_float64", "zero_d", "int_if_integral"][(v // 2 + ci) % 4],
                "feed_back": bool((v + ci) % 4 == 1)}
        pres["min_default"] = pres["min_style"] == "omitted"
        if pres["form"] in ("em", "em_df") and (pres["ids"] in ("big17M", "big2p24", "big2p31", "near2p53") or pres["tomo_ids"] == "adjacent_2p24"):
            pres["form"] = "motl" if rng.random() < 0.5 else "df"      # numbers above 2**24 are not float32-exact: no EM-file presentation
        if pres["form"] in ("em", "em_df") and cls.startswith("bound_slivers"):
            pres["form"] = "motl" if v % 2 else "df"                   # float32 files cannot hold a 1e-12 .. 1e-7 sliver
        if pres["form"] in ("em", "em_df"):
            pres["int_ids"] = False
        if (v + ci) % 3 == 0:
            # repeated row labels - on DataFrame-typed arguments only (a Motl object keeps its index and cryoCAT's label lookups then raise:
            # outside the quantifier by the lead's ruling, counted out of domain by the monitor)
            for w, key in (("entry", "index_e"), ("exit", "index_x")):
                if _is_df(pres["form"], w, i):
                    pres[key] = "repeated"
        de, dx = _tables(rng, E, X, tomo_idx, pres)
        Et = {"sub": de["subtomo_id"].to_numpy(float), "tomo": de["tomo_id"].to_numpy(float), "pos": gens.positions(de), "n": len(de)}
        Xt = {"sub": dx["subtomo_id"].to_numpy(float), "tomo": dx["tomo_id"].to_numpy(float), "pos": gens.positions(dx), "n": len(dx)}
        if not orc.boundary_clear(Et, Xt, m, D, None if cls.startswith("bound_slivers") else 1e-6):
            continue
        cand = orc.candidates(Et, Xt, m, D)
        if plants is not None:
            dmx = orc.link_matrix(Et, Xt)
            okp = True
            for (a_, b_, kd, dl) in plants:
                dd = float(dmx[a_, b_])
                okp &= {"max+": dd > D, "max-": m < dd <= D, "min-": dd <= m, "min+": m < dd <= D, "zero": dd == 0.0}[kd]
            if not okp:
                continue
        if designed:
            # the assembled case has exactly the intended candidate links (rigid motions and float splitting keep them)
            want = 0
            for p in parts:
                pe, px = p[0], p[1]
                dd = np.sqrt(((px[:, None] - pe[None]) ** 2).sum(axis=2))
                np.fill_diagonal(dd, np.inf)
                want += int(((dd > m) & (dd <= D)).sum())
            if int(cand.sum()) != want:
                continue
        second = None
        if cls == "second_call_moved_exits" or v % 5 == 3:
            kind2 = ["permuted", "moved"][(v // 5 + ci) % 2] if cls != "second_call_moved_exits" else ["permuted", "moved"][v % 2]
            which = "entry" if (v % 10 == 8 or (cls == "second_call_moved_exits" and v % 4 == 3)) else "exit"
            # in place: the caller's own object (DataFrame / Motl / file) is modified between the calls instead of a new one being passed
            inplace = bool((v // 5 + ci) % 2) if cls != "second_call_moved_exits" else bool((v // 2) % 2)
            if which == "exit":
                t2 = _second_exit(rng, dx, Xt["pos"], Xt["tomo"], D, kind2, pres)
                E2, X2 = Et, {"sub": t2["subtomo_id"].to_numpy(float), "tomo": t2["tomo_id"].to_numpy(float), "pos": gens.positions(t2), "n": len(t2)}
            else:
                t2 = _second_exit(rng, de, Et["pos"], Et["tomo"], D, kind2, pres, is_em=pres["form"] in ("em", "em_df"))
                E2, X2 = {"sub": t2["subtomo_id"].to_numpy(float), "tomo": t2["tomo_id"].to_numpy(float), "pos": gens.positions(t2), "n": len(t2)}, Xt
            if not orc.boundary_clear(E2, X2, m, D, None if cls.startswith("bound_slivers") else 1e-6):
                continue
            cand2 = orc.candidates(E2, X2, m, D)
            second = {"kind": kind2, "which": which, "inplace": inplace, "table": t2, "E": E2, "X": X2, "cand": cand2, "n_cand": int(cand2.sum())}
        _index(rng, de, pres["index_e"])
        _index(rng, dx, pres["index_x"])
        if second is not None:
            second["table"].index = (dx if second["which"] == "exit" else de).index
        tags = lat_tags if lat is not None else [p[3] for p in parts]
        summ = {"class": cls, "variant": v, "n": int(len(de)), "tomograms": int(len(np.unique(Et["tomo"]))), "max_distance": D, "min_distance": m,
                "candidate_links": int(cand.sum()), "presentation": pres, "gadgets": tags,
                "entry0": np.round(Et["pos"][0], 4).tolist(), "exit0": np.round(Xt["pos"][0], 4).tolist(), "attempt": attempt}
        case = {"i": i, "cls": cls, "entry": de, "exit": dx, "E": Et, "X": Xt, "D": D, "m": m, "pres": pres, "n_cand": int(cand.sum()),
                "cand": cand, "summary": summ, "second": second, "plants": plants}
        if second is not None:
            summ["second_call"] = "%s sites %s%s" % (second["which"], second["kind"], ", caller's object modified in place" if second["inplace"] else ", new object")
            summ["candidate_links_second_call"] = second["n_cand"]
        return case
    raise RuntimeError("generator could not build a case of class %s (i=%d)" % (cls, i))


def nontrivial(case):
    return case["E"]["n"] >= 2 and case["n_cand"] >= 1


# ---- driver ---------------------------------------------------------------------------------------
def _em_write(path, df):
    a = df[orc.CANON].to_numpy(dtype=np.float32)            # (N,20)
    files.write_em_raw(path, a.T[:, :, None], code=5)       # EM particle list: x = 20 fields, y = N, z = 1


def _shape(ctx, case, df, which):
    """value-preserving re-shaping of one table: integer-typed bookkeeping columns (a table allocated with pd.DataFrame(0, ...)), column order,
    one consolidated (C / Fortran / read-only) block, DataFrame.attrs"""
    pres = case["pres"]
    rng = ctx.rng(case["i"], 7 if which == "entry" else 8)
    bd = pres["book_dtype"]
    if bd in ("int64", "int32"):
        for c in ("geom4", "object_id", "geom2"):
            df[c] = df[c].astype(bd)
    elif bd == "int_table":
        pos = gens.positions(df)
        df[["x", "y", "z"]] = pos
        for c in df.columns:
            if c not in ("x", "y", "z"):
                df[c] = np.zeros(len(df), dtype=np.int64) if c.startswith("shift") else df[c].astype(np.int64)
    elif pres["layout"] != "columns" and all(df[c].dtype == np.float64 for c in df.columns):
        arr = df.to_numpy(dtype=np.float64, copy=True)
        if pres["layout"] == "fortran_block":
            arr = np.asfortranarray(arr)
        if pres["layout"] == "single_block_readonly":
            arr.setflags(write=False)
        df = pd.DataFrame(arr, columns=list(df.columns), index=df.index, copy=False)
    if pres["col_order"] == "reversed":
        df = df[list(df.columns[::-1])]
    elif pres["col_order"] == "permuted":
        df = df[[df.columns[int(k)] for k in rng.permutation(len(df.columns))]]
    if pres["attrs"]:
        df.attrs = {"source": "picked %s sites" % which, "pixel_size": 1.35, "list": [1, 2]}
    return df


def _em_path(ctx, case, which, tag):
    kind, i = case["pres"]["path_kind"], case["i"]
    base = "%s%s_%d" % (which, tag, i)
    if kind == "ribosome.em":
        return os.path.join(ctx.scratch, base + "_ribosome.em")       # stem ends in the letters of the extension
    if kind == "frame.em":
        return os.path.join(ctx.scratch, base + "frame.em")
    if kind == "subdir_special":
        d = os.path.join(ctx.scratch, "sub dir %d" % i, "t\u00fcb\u00ef")
        os.makedirs(d, exist_ok=True)
        return os.path.join(d, "[%s] b*?.em" % base)
    if kind == "noext":
        return os.path.join(ctx.scratch, base)
    if kind == "relative":
        return "rel_" + base + ".em"                                  # the shard's cwd is its scratch directory
    return os.path.join(ctx.scratch, base + ".em")


def _wrap(ctx, case, df, which, tag="", paths=None):
    """present one table in the case's input form: which = 'entry' | 'exit'"""
    form, cm = case["pres"]["form"], ctx.cm
    df = df.copy()
    is_file = form == "em" or (form == "em_df" and which == "entry")
    if is_file:
        path = _em_path(ctx, case, which, tag)
        _em_write(path, df)
        if paths is not None:
            paths.append(path)
        if case["pres"]["loader_object"]:
            obj = cm.Motl.load(path)                    # the very object the loader returned
            obj.provenance = path
            return obj
        return path
    df = _shape(ctx, case, df, which)
    if _is_df(form, which, case["i"]):
        return df
    obj = cm.Motl(df)
    if case["pres"]["attrs"]:
        obj.note = "extra attribute carried along"
    return obj


def _scalar(value, style):
    if style == "np_float64":
        return np.float64(value)
    if style == "zero_d":
        return np.array(float(value))
    if style == "int_if_integral" and float(value) == int(value):
        return int(value)
    if style == "pos_int0":
        return 0
    if style == "np_int64":
        return np.int64(0)
    if style == "neg_zero":
        return -0.0
    return float(value)


def _call(ctx, case, a_entry, a_exit, label):
    D, m, pres = case["D"], case["m"], case["pres"]
    fn = ctx.rb.trace_chains                               # looked up at call time: the monitored attribute
    Dv = _scalar(D, pres["max_style"])
    if pres["min_style"] == "omitted":
        return ctx.call(label, fn, a_entry, a_exit, Dv) if not pres["kw"] else ctx.call(label, fn, motl_entry=a_entry, motl_exit=a_exit, max_distance=Dv)
    mval = _scalar(m, pres["min_style"])
    if pres["kw"] or pres["min_style"] == "kw_float0":
        return ctx.call(label, fn, motl_entry=a_entry, motl_exit=a_exit, max_distance=Dv, min_distance=mval)
    return ctx.call(label, fn, a_entry, a_exit, Dv, mval)


def _drive_checks(ctx, case, res, Et, Xt, cand, n_cand, what):
    """driver-side judgement of one real call against the generator's ground truth for THAT call's lists."""
    D, m = case["D"], case["m"]
    out = orc.read_output(res)
    _judge(ctx, ["truth_chains"], Et, Xt, out, m, D, {"class": case["cls"], "gadgets": case["summary"]["gadgets"], "call": what})
    # consequence of the link clause: two particles may be consecutive only if their exit->entry distance is a candidate
    if out is None:
        ctx.check("trivial_pairs", False, {"what": "no table", "call": what})
        return None, None, None
    row_of = {s: k for k, s in enumerate(Et["sub"].tolist())}
    w = None
    keyed = {}
    for s, t, o, g in zip(out["sub"].tolist(), out["tomo"].tolist(), out["obj"].tolist(), out["order"].tolist()):
        keyed.setdefault((t, o), []).append((g, s))
    for key, mem in keyed.items():
        mem.sort()
        for (g1, s1), (g2, s2) in zip(mem[:-1], mem[1:]):
            if s1 in row_of and s2 in row_of and not cand[row_of[s1], row_of[s2]]:
                w = {"chain": list(key), "former": s1, "latter": s2, "orders": [g1, g2], "call": what,
                     "what": "neighbours in a chain although their exit->entry distance is not a candidate (or they share no tomogram)"}
                break
        if w:
            break
    if w is None and n_cand == 0 and len(keyed) != len(out["sub"]):
        w = {"what": "no candidate pair exists, yet some chain has more than one member", "chains": len(keyed), "particles": len(out["sub"]), "call": what}
    ctx.check("trivial_pairs", w is None, w)
    return out, keyed, row_of


POS_COLS = ["x", "y", "z", "shift_x", "shift_y", "shift_z"]


def _overwrite(ctx, case, obj, table):
    """modify the caller-owned argument IN PLACE so that it holds the sites of `table` (same rows, ids, index)"""
    if isinstance(obj, str):
        _em_write(obj, table)                    # same path, new content
    else:
        df = obj if isinstance(obj, pd.DataFrame) else obj.df
        df[POS_COLS] = table[POS_COLS].to_numpy()


def _count(ctx, key, n=1):
    ctx.extra[key] = ctx.extra.get(key, 0) + n


def run_case(ctx, case):
    D, m = case["D"], case["m"]
    paths = []
    a_entry = _wrap(ctx, case, case["entry"], "entry", "", paths)
    a_exit = _wrap(ctx, case, case["exit"], "exit", "", paths)
    _count(ctx, "calls_entry_geom4_integer_typed", int(not isinstance(a_entry, str) and (a_entry if isinstance(a_entry, pd.DataFrame) else a_entry.df)["geom4"].dtype.kind == "i"))
    _count(ctx, "calls_min0_style_%s" % case["pres"]["min_style"], int(m == 0.0))
    _count(ctx, "calls_DataFrame_argument_with_repeated_row_labels", int(any(isinstance(a, pd.DataFrame) and not a.index.is_unique for a in (a_entry, a_exit))))
    if not isinstance(a_entry, str) and not isinstance(a_exit, str):
        ie = (a_entry if isinstance(a_entry, pd.DataFrame) else a_entry.df).index
        ix = (a_exit if isinstance(a_exit, pd.DataFrame) else a_exit.df).index
        if not isinstance(a_entry, pd.DataFrame) and not isinstance(a_exit, pd.DataFrame) and not ie.equals(ix):
            _count(ctx, "calls_two_Motl_objects_with_different_index_labels")
    try:
        ok, res = _call(ctx, case, a_entry, a_exit, "trace_chains")
        if ok:
            out, keyed, row_of = _drive_checks(ctx, case, res, case["E"], case["X"], case["cand"], case["n_cand"], "first call")
            if out is not None and case["cls"] == "lattice_ties":
                d2 = orc.sq_matrix(case["E"], case["X"])
                ex = orc.exact_pairs(case["E"], case["X"], m, D)
                _count(ctx, "lattice_pairs_exactly_at_min", int((ex & (d2 == m * m)).sum()))
                _count(ctx, "lattice_pairs_exactly_at_max", int((ex & (d2 == D * D)).sum()))
                nmax = 0
                for key, mem in keyed.items():
                    for (g1, s1), (g2, s2) in zip(mem[:-1], mem[1:]):
                        if s1 in row_of and s2 in row_of and d2[row_of[s1], row_of[s2]] == D * D:
                            nmax += 1
                _count(ctx, "lattice_links_exactly_at_max", nmax)
                _count(ctx, "lattice_cases_all_pairs_exact", int(ex.all()))
            if out is not None and case.get("plants"):
                # slivers: what was planted and what cryoCAT did with the admissible ones (linking them is allowed, not demanded by the property)
                nxt = {}
                for key, mem in keyed.items():
                    for (g1, s1), (g2, s2) in zip(mem[:-1], mem[1:]):
                        nxt[s1] = s2
                sub = case["E"]["sub"]
                for (a_, b_, kd, dl) in case["plants"]:
                    _count(ctx, "sliver_planted_%s" % {"max+": "beyond_max", "max-": "below_max", "min-": "inside_min", "min+": "above_min", "zero": "coincident_min0"}[kd])
                    if kd in ("max-", "min+") and nxt.get(sub[a_]) == sub[b_]:
                        _count(ctx, "sliver_admissible_%s_linked" % {"max-": "below_max", "min+": "above_min"}[kd])
            if out is not None and case["cls"].startswith("same_chain_exact_tie"):
                _count(ctx, "exact_tie_gadgets_equal", sum(1 for t_ in case["summary"]["gadgets"] if t_.startswith("tie-equal")))
                _count(ctx, "exact_tie_gadgets_unequal_controls", sum(1 for t_ in case["summary"]["gadgets"] if t_.startswith("tie-") and not t_.startswith("tie-equal")))
        sec = case.get("second")
        if sec is None and ok and case["pres"]["feed_back"]:
            # flow: the table trace_chains RETURNED (rows in chain order, bookkeeping filled in, repeated row labels) is the entry list of
            # another tracing, with the exit list brought into the same row order; judged like a fresh input with the same values
            rdf = getattr(res, "df", None)
            row_of = {s_: k for k, s_ in enumerate(case["E"]["sub"].tolist())}
            if isinstance(rdf, pd.DataFrame) and sorted(rdf["subtomo_id"].tolist()) == sorted(row_of):
                order = [row_of[s_] for s_ in rdf["subtomo_id"].tolist()]
                Ef = {"sub": case["E"]["sub"][order], "tomo": case["E"]["tomo"][order], "pos": case["E"]["pos"][order], "n": len(order)}
                Xf = {"sub": case["X"]["sub"][order], "tomo": case["X"]["tomo"][order], "pos": case["X"]["pos"][order], "n": len(order)}
                candf = case["cand"][np.ix_(order, order)]
                xf = case["exit"].iloc[order].copy()
                if case["pres"]["form"] == "em":
                    xf = xf.astype(np.float32).astype(np.float64)
                f_entry = rdf if case["i"] % 2 else ctx.cm.Motl(rdf.reset_index(drop=True))
                f_exit = xf if case["i"] % 3 else ctx.cm.Motl(xf.reset_index(drop=True))
                okf, resf = _call(ctx, case, f_entry, f_exit, "trace_chains(returned table fed back)")
                _count(ctx, "feed_back_calls")
                if okf:
                    _drive_checks(ctx, case, resf, Ef, Xf, candf, case["n_cand"], "returned table fed back as entry list")
        if sec is not None:
            # history: a SECOND call in the same process with one list changed, a THIRD with the first lists again; every call is judged
            # against the values its arguments hold at that moment
            orig = {"exit": case["exit"], "entry": case["entry"]}[sec["which"]]
            if sec["inplace"]:
                _overwrite(ctx, case, a_exit if sec["which"] == "exit" else a_entry, sec["table"])
                b_entry, b_exit = a_entry, a_exit
                _count(ctx, "second_calls_after_in_place_modification")
            else:
                other = _wrap(ctx, case, sec["table"], sec["which"], "2", paths)
                b_entry, b_exit = (a_entry, other) if sec["which"] == "exit" else (other, a_exit)
            ok2, res2 = _call(ctx, case, b_entry, b_exit, "trace_chains(second call)")
            _count(ctx, "second_calls")
            if ok2:
                _drive_checks(ctx, case, res2, sec["E"], sec["X"], sec["cand"], sec["n_cand"], "second call: " + case["summary"]["second_call"])
            if case["i"] % 2 == 0 or sec["inplace"]:
                if sec["inplace"]:
                    _overwrite(ctx, case, a_exit if sec["which"] == "exit" else a_entry, orig)
                ok3, res3 = _call(ctx, case, a_entry, a_exit, "trace_chains(third call)")
                if ok3:
                    _drive_checks(ctx, case, res3, case["E"], case["X"], case["cand"], case["n_cand"], "third call: first lists again")
    finally:
        for p in paths:
            try:
                os.remove(p)
            except OSError:
                pass
