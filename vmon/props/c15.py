"""C15 - Tilt-stack operations are lossless selections / permutations of tilt images.

Layer A (call monitors, attached in place on cryocat.tiltstack / cryocat.ioutils; every call is judged, also calls
made by the relational drivers and by the exhaustive sweeps):
  sort_tilts_by_angle   result (-> n,y,x by the declared output order) == input[n,y,x][order by ascending angle]
  remove_tilts          result == the tilts not named, in their original order (0-/1-based as requested)
  split_stack_even_odd  (even, odd) == (input[0::2], input[1::2])
  flip_along_axes       result == input reversed along the documented index of every axis named, left to right
  crop                  result == input[:, H//2-h//2 : +h, W//2-w//2 : +w]
  bin                   result over the COMPLETE b x b blocks == block means (int16: within 1; float32: 1e-5 relative)
  output_file           the file the call wrote, parsed from bytes with struct, (a) holds that same n,y,x selection and
                        (b) equals the RETURNED array (n,y,x) exactly as values, for every operation incl. bin (all voxels)
  output_file_bin_int16_fractional   clause (b) counted separately on int16 binnings whose block means are not integers
  indices_load          ioutils.indices_load returns the 0-based values of list / array / text file / csv flag table
Layer B (drivers, on results of real calls):
  same_result           one stack, one operation, 4 configurations out of {array xyz, array zyx, MRC file} x {xyz, zyx}
                        output x {output file on, off} x parameter representations (angles list/array/.tlt file; indices
                        list/array/file/csv, 0- and 1-based; axes str/list; None vs full size; factor int/str) agree
  interleave            even/odd halves put back alternately give the input
  params_unchanged      the parameter objects (index array/list, angle array/list, axes list, sizes) that the configurations
                        of one case SHARE equal their pristine copies after every call (diagnostic witness; the property-level
                        verdicts are same_result and the per-operation monitors, which the driver also evaluates against the
                        ORIGINAL parameter values of the case)
  file_replaced         file input uses a small pool of REUSED paths rewritten by the independent writer; in every case an
                        operation on path P is followed - with no other file load in between - by replacing P (other stack of the
                        same shape / another shape / the other dtype) and a second operation on P, which must act on what P holds now
  mutated_history       three calls on the SAME caller-owned stack / angle / index / axes objects, which the caller modifies in
                        place between the calls: each result is the selection from the values the objects hold at that moment
  chain                 the object one operation returned (or the file it wrote) fed into a second operation: composition of the two
                        numpy selections.  Order strings are passed as literals, run-time built (non-interned) strings, str subclasses;
                        numbered_from_1 as bool / np.bool_ / 0,1; output and parameter files use hostile names (dots inside the stem,
                        spaces, sub-directories, [ ] * ?, non-ASCII, stems ending in the extension's letters, relative paths)
  flip_twice            flipping along an axis, then again (second call fed with the returned array in its declared
                        order, or with the MRC file the first call wrote), restores the input
"""
import os
import shutil

import numpy as np

from vmon import monitors
from vmon.oracles import c15_oracle as orc
from vmon.oracles import files

PROP = "C15"
RULE = ("cases = one generated stack (2..25 tilts, H and W independent in 4..40, float32 or int16, random pixel values so that all "
        "tilt images and all mirror images differ) driven through all six operations, each in 4 configurations drawn from "
        "{array xyz, array zyx, MRC file} x output order x output file on/off x parameter representation, plus flip-twice chains; "
        "non-trivial = at least 3 tilts, H != W and tilt angles not already ascending; distinct by digest of (class, shape, dtype, "
        "angles, index subset, axes, crop size, binning factor, configurations, first pixel values)")
ASSUMPTIONS = [
    "declared order 'zyx' means array[n, y, x] (n = tilt number, y = image row, x = image column); 'xyz' means array[x, y, n]; "
    "conversion between them is transpose(2, 1, 0)",
    "an MRC stack file has nx = image width, ny = image height, nz = number of tilts, x fastest on disk; the declared input order is "
    "irrelevant for file input and the written file is n,y,x whatever output order is requested (tiltstack docstrings)",
    "input MRC files are written by vmon.oracles.files.write_mrc_raw (mode 2 float32 / mode 1 int16, extensions .mrc/.st/.ali), output "
    "files are parsed by vmon.oracles.files.parse_mrc; only voxel values are compared, not header statistics or the file's mode",
    "crop: new_width counts columns (x), new_height rows (y); window start = size//2 - new//2 on each axis",
    "flip_along_axes follows its docstring (IMOD clip flipx/flipy/flipz): 'x' mirrors about the x axis = reverses the row index y, "
    "'y' reverses the column index x, 'z' reverses the tilt order; a list of axes is applied left to right",
    "bin: only complete b x b blocks are judged (the code zero-pads incomplete edge blocks; those output pixels are not judged); "
    "int16: |result - mean| <= 1; float32: |result - mean| <= 1e-5 * max|block| + 1e-37; b in 1..min(H, W)",
    "tilt angles: no ties, gaps >= 0.001 degree (angle files are read as float32 by cryoCAT), list / float64 / float32 array / text file "
    "with one value per line; ties are outside the quantifier and never generated",
    "index input: non-empty proper subset without repetition, in any order; list, int64/int32 array, text file one index per line, or "
    "csv flag table with a ToBeRemoved column (always 0-based positions; rows whose Removed flag is set are not part of the stack)",
    "returned dtype is not judged for selections (values are compared exactly); pixel values are finite",
    "csv flag tables: ToBeRemoved may be spelled True/False, TRUE/FALSE, true/false or 0/1 (integers); a Removed column stored as 0/1 INTEGERS is "
    "outside the quantifier (the unchanged code raises KeyError on `~` of an int column): never generated, such calls are counted out-of-domain",
    "order arguments are judged by value: 'xyz'/'zyx' given as literals, run-time built strings or str subclasses are the same configuration",
]

CLASSES = ["f32_random", "i16_random", "n2", "n25", "wide_4xW", "tall_Hx4", "odd_sizes", "square", "i16_extremes", "f32_extremes",
           "strided_views", "all_file_io", "angles_hostile", "remove_single", "remove_all_but_one", "remove_ends", "idx_files",
           "crop_parity", "bin_edges", "multi_flip", "bin_integer_means", "pow2_sizes", "max_sizes", "f32_limits", "duplicate_tilts", "zero_stack", "hostile_paths"]
OPS = ["sort", "remove", "split", "flip", "crop", "bin"]
FN = {"sort": "sort_tilts_by_angle", "remove": "remove_tilts", "split": "split_stack_even_odd", "flip": "flip_along_axes",
      "crop": "crop", "bin": "bin"}
MODE = {"float32": 2, "int16": 1}
NV = 4


def plan(tier):
    if tier == "quick":
        return dict(n_cases=405, shards=2, classes=CLASSES, timeout_s=600,
                    min_evals={"sort_tilts_by_angle": 2000, "remove_tilts": 2800, "split_stack_even_odd": 2000, "flip_along_axes": 3500,
                               "crop": 3000, "bin": 2000, "params_unchanged": 5000, "file_replaced": 700, "mutated_history": 1000, "chain": 600, "output_file": 5000, "output_file_bin_int16_fractional": 150, "indices_load": 3800, "indices_load_direct": 3800, "same_result": 4500,
                               "interleave": 1000, "flip_twice": 800})
    return dict(n_cases=10800, shards=16, classes=CLASSES, timeout_s=3000,
                min_evals={"sort_tilts_by_angle": 55000, "remove_tilts": 60000, "split_stack_even_odd": 55000, "flip_along_axes": 95000,
                           "crop": 60000, "bin": 55000, "params_unchanged": 150000, "file_replaced": 19000, "mutated_history": 28000, "chain": 16000, "output_file": 150000, "output_file_bin_int16_fractional": 5000, "indices_load": 100000, "indices_load_direct": 100000, "same_result": 130000,
                           "interleave": 30000, "flip_twice": 23000})


# ---- call monitors --------------------------------------------------------------------------------
def _cfg(A):
    return {"input": "file" if isinstance(A["tilt_stack"], str) else "array", "input_order": A["input_order"],
            "output_order": A["output_order"], "output_file": bool(A.get("output_file") or A.get("output_file_prefix"))}


def _app_stack(A):
    if A.get("output_order") not in orc.ORDERS:
        return False
    nyx = orc.input_nyx(A["tilt_stack"], A["input_order"])       # independent copy taken BEFORE the call
    if nyx is None:
        return False
    A["_nyx"] = nyx
    return True


def _nyx_or_none(res, order):
    return orc.to_nyx(res, order) if isinstance(res, np.ndarray) and res.ndim == 3 else None


def _judge_file(ctx, path, exp, info, binned=None, returned=None):
    """two evaluations of output_file per written file: (a) the parsed file holds the expected selection (bin: block-mean
    rule), (b) the parsed file equals the RETURNED result (n,y,x) exactly as values - every voxel, edge blocks included"""
    if not path:
        return
    if not (isinstance(path, str) and path.endswith((".mrc", ".rec"))):
        ctx.ood("output_file")
        return
    got, err = orc.read_stack_file(path)
    if got is None:
        ctx.check("output_file", False, dict(info, what="written file not parseable as MRC", error=err, path=os.path.basename(path)))
        return
    w = orc.diff_exact(got, exp) if binned is None else orc.diff_binned(got, binned[0], binned[1])
    ctx.check("output_file", w is None, w and dict(w, file=os.path.basename(path), **info))
    if returned is None:
        return                             # malformed result: already recorded by the operation's own monitor
    w = orc.diff_exact(got, returned)
    w = w and dict(w, what="file differs from the returned result: " + w["what"], file=os.path.basename(path), file_dtype=str(got.dtype),
                   returned_dtype=str(returned.dtype), **info)
    ctx.check("output_file", w is None, w)
    if binned is not None and binned[0].dtype.kind == "i":
        means, _ = orc.block_means(binned[0], binned[1])
        if means.size and bool(np.any(means != np.round(means))):
            ctx.check("output_file_bin_int16_fractional", w is None, w)


def _judge(ctx, name, A, res, exp, info, out_file="unset"):
    info = dict(info, **_cfg(A))
    if not isinstance(res, np.ndarray) or res.ndim != 3:
        ctx.check(name, False, dict(info, what="result is not a 3-d array", type=type(res).__name__))
    else:
        w = orc.diff_exact(orc.to_nyx(res, A["output_order"]), exp)
        ctx.check(name, w is None, w and dict(w, **info))
    _judge_file(ctx, A.get("output_file") if out_file == "unset" else out_file, exp, dict(info, op=name),
                returned=_nyx_or_none(res, A["output_order"]))


def _app_sort(A):
    if not _app_stack(A):
        return False
    ang = orc.read_angles(A["input_tilts"])
    if not orc.angles_in_quantifier(ang, A["_nyx"].shape[0]):
        return False
    A["_angles"] = ang
    return True


def _post_sort(ctx, A, old, res):
    exp, order = orc.exp_sort(A["_nyx"], A["_angles"])
    _judge(ctx, "sort_tilts_by_angle", A, res, exp, {"angles": A["_angles"][:8], "expected_order": order[:12],
                                                   "angles_as": type(A["input_tilts"]).__name__})


def _app_remove(A):
    if not _app_stack(A):
        return False
    idx0 = orc.read_indices(A["idx_to_remove"], bool(A["numbered_from_1"]))
    if not orc.indices_in_quantifier(idx0, A["_nyx"].shape[0]):
        return False
    A["_idx0"] = idx0
    return True


def _post_remove(ctx, A, old, res):
    exp, keep = orc.exp_remove(A["_nyx"], A["_idx0"])
    _judge(ctx, "remove_tilts", A, res, exp, {"remove_0based": A["_idx0"][:12], "numbered_from_1": bool(A["numbered_from_1"]),
                                            "indices_as": type(A["idx_to_remove"]).__name__, "n_tilts": int(A["_nyx"].shape[0])})


def _post_split(ctx, A, old, res):
    ev, od = orc.exp_split(A["_nyx"])
    info = dict(_cfg(A), n_tilts=int(A["_nyx"].shape[0]))
    if not (isinstance(res, tuple) and len(res) == 2 and all(isinstance(r, np.ndarray) and r.ndim == 3 for r in res)):
        ctx.check("split_stack_even_odd", False, dict(info, what="result is not a pair of 3-d arrays"))
    else:
        w = None
        for half, r, e in (("even", res[0], ev), ("odd", res[1], od)):
            w = orc.diff_exact(orc.to_nyx(r, A["output_order"]), e)
            if w is not None:
                w = dict(w, half=half, **info)
                break
        ctx.check("split_stack_even_odd", w is None, w)
    pre = A.get("output_file_prefix")
    if pre:
        ok = isinstance(res, tuple) and len(res) == 2
        _judge_file(ctx, pre + "_even.mrc", ev, dict(info, op="split_stack_even_odd", half="even"),
                    returned=_nyx_or_none(res[0], A["output_order"]) if ok else None)
        _judge_file(ctx, pre + "_odd.mrc", od, dict(info, op="split_stack_even_odd", half="odd"),
                    returned=_nyx_or_none(res[1], A["output_order"]) if ok else None)


def _app_flip(A):
    if not _app_stack(A):
        return False
    ax = orc.axes_list(A["axes"])
    if ax is None:
        return False
    A["_axes"] = ax
    return True


def _post_flip(ctx, A, old, res):
    _judge(ctx, "flip_along_axes", A, res, orc.exp_flip(A["_nyx"], A["_axes"]), {"axes": A["_axes"]})


def _app_crop(A):
    if not _app_stack(A):
        return False
    n, H, W = A["_nyx"].shape
    w, h = A["new_width"], A["new_height"]
    if w is not None:
        w = orc.int_like(w)
        if w is None or not 1 <= w <= W:
            return False
    if h is not None:
        h = orc.int_like(h)
        if h is None or not 1 <= h <= H:
            return False
    A["_wh"] = (w, h)
    return True


def _post_crop(ctx, A, old, res):
    w, h = A["_wh"]
    _judge(ctx, "crop", A, res, orc.exp_crop(A["_nyx"], w, h), {"new_width": w, "new_height": h, "stack_nyx": list(A["_nyx"].shape)})


def _app_bin(A):
    if not _app_stack(A):
        return False
    b = orc.int_like(A["binning_factor"], allow_str=True)
    if b is None or not 1 <= b <= min(A["_nyx"].shape[1:]):
        return False
    A["_b"] = b
    return True


def _post_bin(ctx, A, old, res):
    b, nyx = A["_b"], A["_nyx"]
    info = dict(_cfg(A), binning_factor=b, stack_nyx=list(nyx.shape), dtype=str(nyx.dtype))
    if not isinstance(res, np.ndarray) or res.ndim != 3:
        ctx.check("bin", False, dict(info, what="result is not a 3-d array"))
    else:
        w = orc.diff_binned(orc.to_nyx(res, A["output_order"]), nyx, b)
        ctx.check("bin", w is None, w and dict(w, **info))
    _judge_file(ctx, A.get("output_file"), None, dict(info, op="bin"), binned=(nyx, b), returned=_nyx_or_none(res, A["output_order"]))


def _app_idx(A):
    exp = orc.read_indices(A["input_data"], bool(A["numbered_from_1"]))
    if not exp:
        return False
    A["_exp"] = exp
    return True


def _post_idx(ctx, A, old, res):
    try:
        got = [int(v) for v in np.atleast_1d(np.asarray(res)).ravel().tolist()]      # values only; shape is not judged
    except Exception:
        got = None
    ctx.check("indices_load", got == A["_exp"], {"returned": got if got is None else got[:12], "expected_0based": A["_exp"][:12],
                                                "numbered_from_1": bool(A["numbered_from_1"]),
                                                "input": os.path.basename(A["input_data"]) if isinstance(A["input_data"], str) else type(A["input_data"]).__name__})


def setup(ctx):
    from cryocat import ioutils, tiltstack
    ctx.ts, ctx.io = tiltstack, ioutils
    f_sort = monitors.wrap(ctx, tiltstack, "sort_tilts_by_angle", "sort_tilts_by_angle", _post_sort, _app_sort)
    f_rem = monitors.wrap(ctx, tiltstack, "remove_tilts", "remove_tilts", _post_remove, _app_remove)
    f_split = monitors.wrap(ctx, tiltstack, "split_stack_even_odd", "split_stack_even_odd", _post_split, _app_stack)
    f_flip = monitors.wrap(ctx, tiltstack, "flip_along_axes", "flip_along_axes", _post_flip, _app_flip)
    f_crop = monitors.wrap(ctx, tiltstack, "crop", "crop", _post_crop, _app_crop)
    f_bin = monitors.wrap(ctx, tiltstack, "bin", "bin", _post_bin, _app_bin)
    f_idx = monitors.wrap(ctx, ioutils, "indices_load", "indices_load", _post_idx, _app_idx)
    ctx.declare("output_file", "output_file_bin_int16_fractional", "same_result", "interleave", "flip_twice", "params_unchanged", "file_replaced", "indices_load_direct", "mutated_history", "chain")
    TS = tiltstack.TiltStack
    monitors.trace(ctx, [
        ("TiltStack.__init__", TS.__init__, {"load_file": "self.data = cryomap.read(tilt_stack, transpose=False)",
                                             "copy_array": "self.data = tilt_stack.copy()",
                                             "xyz_to_zyx": "self.data = self.data.transpose(2, 1, 0)"}),
        ("TiltStack.write_out", TS.write_out, {"writes_file": "cryomap.write(data_to_write"}),
        ("TiltStack.correct_order", TS.correct_order, {"cast_back": "return_data = return_data.astype(self.data_type)",
                                                       "to_xyz": "return return_data.transpose(2, 1, 0)",
                                                       "stay_zyx": ("return return_data", 1)}),
        ("crop", f_crop, {"width_given": "new_width = int(new_width)", "width_default": "new_width = ts.width",
                          "height_given": "new_height = int(new_height)", "height_default": "new_height = ts.height",
                          "refuse_wider": "raise ValueError(f\"new_width", "refuse_higher": "raise ValueError(f\"new_height"}),
        ("sort_tilts_by_angle", f_sort),
        ("remove_tilts", f_rem, {"refuse_out_of_range": "raise IndexError(", "delete": "ts.data = np.delete("}),
        ("bin", f_bin),
        ("split_stack_even_odd", f_split, {"even": "even_stack.append(", "odd": "odd_stack.append(",
                                           "write_files": "ts.write_out(output_file_prefix + \"_even.mrc\"",
                                           "refuse_single": "raise ValueError(f\"Stack contains only 1 tilt"}),
        ("flip_along_axes", f_flip, {"wrap_str": "axes = [axes]", "x": "ts.data = ts.data[:, ::-1, :]", "y": "ts.data = ts.data[:, :, ::-1]",
                                     "z": "ts.data = ts.data[::-1, :, :]", "refuse_axis": "raise ValueError(f\"The axes can be"}),
        ("ioutils.indices_load", f_idx, {"csv": "df = pd.read_csv(input_data)", "csv_removed_rows": "df = df[~df[\"Removed\"]]",
                                         "text_file": "indices = np.loadtxt(input_data, dtype=int)",
                                         "list_or_array": "indices = np.asarray(input_data)", "one_based": "indices = indices - 1"}),
        ("ioutils.tlt_load", ioutils.tlt_load, {"array": "return input_tlt", "list": "return np.asarray(input_tlt)",
                                                "text_file": "tilts = one_value_per_line_read(input_tlt)"}),
    ])


# ---- generator ------------------------------------------------------------------------------------
def _pixels(rng, cls, n, H, W, dtype):
    shape = (n, H, W)
    if dtype == "int16":
        if cls == "i16_extremes":
            a = rng.integers(-32768, 32768, shape).astype(np.int16)
            flat = a.reshape(-1)
            pos = rng.choice(flat.size, 4, replace=False)
            flat[pos] = [-32768, 32767, -32768, 32767]
            return a
        lim = int(rng.choice([50, 3000, 20000]))
        return (rng.integers(-lim, lim + 1, shape) + rng.integers(-200, 200, (n, 1, 1))).astype(np.int16)
    if cls == "f32_extremes":
        a = rng.normal(0, 1, shape) * 10.0 ** rng.integers(-30, 31, shape)
        m = rng.random(shape)
        a[m < 0.03] = -0.0
        a[(m >= 0.03) & (m < 0.06)] = 1e-40
        a[(m >= 0.06) & (m < 0.08)] = 16777217.0
        return a.astype(np.float32)
    scale = float(rng.choice([1.0, 100.0, 1e-3]))
    return (rng.normal(0, 1, shape) * scale + rng.normal(0, 3 * scale, (n, 1, 1))).astype(np.float32)


F32_LIMITS = np.array([3.4028234663852886e38, 3.4028232635611926e38, 3.4028230607370965e38, -3.4028234663852886e38, 1.401298464324817e-45,
                       -1.401298464324817e-45, 1e-40, 1.1754942106924411e-38, 1.1754943508222875e-38, 16777216.0, 16777215.0, 16777218.0,
                       0.49999997, 2.4999998, 8388607.5, -0.0, 0.0, 100000.0, 100001.0, 2147483648.0, 1.0000001, 65504.0], dtype=np.float64)


def _integer_mean_pixels(rng, n, H, W, b, dtype):
    """stacks whose complete b x b blocks have exactly integral means, four kinds cycled over the tilts, both signs"""
    out = np.empty((n, H, W), dtype=np.int64)
    hb, wb = H // b, W // b
    lim = max(1, 32767 // (b * b))
    for t in range(n):
        kind = ["constant", "block_constant", "adjusted", "multiples"][int(rng.integers(0, 4))] if t >= 4 else ["constant", "block_constant", "adjusted", "multiples"][(t + b) % 4]
        if kind == "constant":
            out[t] = int(rng.choice([1, -1, 3, -3, 7, -7, 255, -1000, 32767, -32768, int(rng.integers(-32768, 32768)), int(rng.integers(-40, 41))]))
        elif kind == "multiples":
            out[t] = rng.integers(-lim, lim + 1, (H, W)) * (b * b)
        else:
            img = rng.integers(-3000, 3001, (H, W))
            if kind == "block_constant":
                vals = rng.integers(-3000, 3001, (hb, wb))
                img[:hb * b, :wb * b] = np.repeat(np.repeat(vals, b, axis=0), b, axis=1)
            else:
                for by in range(hb):
                    for bx in range(wb):
                        blk = img[by * b:(by + 1) * b, bx * b:(bx + 1) * b]
                        blk[int(rng.integers(0, b)), int(rng.integers(0, b))] -= int(blk.sum()) % (b * b)
            out[t] = img
    return out.astype(np.int16).astype(dtype)


def _angles(rng, cls, n):
    kind = str(rng.choice(["permuted", "permuted", "dose_symmetric", "descending", "ascending", "hairline"]))
    if cls == "angles_hostile":
        kind = str(rng.choice(["descending", "all_negative", "close", "ints", "dose_symmetric", "rotated", "hairline", "hairline"]))
    if kind == "hairline":
        # distinct angles 0.001..0.004 degree apart (no ties, also not after a float32 read), in any order: a sort key that is
        # rounded, truncated or narrowed too far turns them into ties
        m = int(rng.integers(2, n + 1))
        base = float(rng.integers(-8000, 8000)) / 100.0
        a = np.concatenate([base + np.cumsum(rng.integers(1, 5, m)) / 1000.0,
                            rng.choice(np.arange(-8900, -8100), n - m, replace=False) / 100.0])
        return np.round(rng.permutation(a), 3), kind
    if kind == "close":
        base = float(rng.integers(-8000, 8000)) / 100.0
        a = base + 0.01 * rng.permutation(n)
    elif kind == "ints":
        a = rng.choice(np.arange(-90, 91), n, replace=False).astype(float)
    elif kind == "all_negative":
        a = -rng.choice(np.arange(1, 9001), n, replace=False) / 100.0
    elif kind == "dose_symmetric":
        step = float(rng.choice([1.0, 2.0, 3.0, 2.5]))
        a = np.array([((k + 1) // 2) * step * (1 if k % 2 else -1) for k in range(n)])        # 0,+s,-s,+2s,-2s,...
    else:
        a = rng.choice(np.arange(-9000, 9001), n, replace=False) / 100.0
        if kind == "descending":
            a = np.sort(a)[::-1]
        elif kind == "ascending":
            a = np.sort(a)
        elif kind == "rotated":
            a = np.roll(np.sort(a), int(rng.integers(1, n)))
    return np.round(np.asarray(a, dtype=float), 2), kind


def _base_variants(rng, cls):
    out = []
    r = int(rng.integers(0, 2))
    for k in range(NV):
        kind = ["array", "file"][k] if k < 2 else str(rng.choice(["array", "array", "file"]))
        v = {"in": kind, "in_order": orc.ORDERS[int(rng.integers(0, 2))],
             "out_order": orc.ORDERS[(k + r) % 2] if k < 2 else orc.ORDERS[int(rng.integers(0, 2))],
             "out_file": bool(rng.random() < 0.5), "layout": str(rng.choice(["c", "c", "view", "strided", "readonly", "swapaxes", "negstride"])),
             "ord_in": str(rng.choice(ORD_KINDS)), "ord_out": str(rng.choice(ORD_KINDS))}
        if cls == "all_file_io":
            v["in"], v["out_file"] = "file", True
        if cls == "strided_views":
            v["in"] = "array" if k != 1 else "file"
            v["layout"] = ["view", "strided", "readonly", "swapaxes", "negstride"][int(rng.integers(0, 5))]
        out.append(v)
    return out


def gen(ctx, i, cls):
    rng = ctx.rng(i)
    n = int(rng.integers(2, 26))
    H = int(rng.integers(4, 41))
    W = int(rng.integers(4, 41))
    dtype = "float32" if rng.random() < 0.5 else "int16"
    if cls in ("f32_random", "f32_extremes", "f32_limits"):
        dtype = "float32"
    if cls in ("i16_random", "i16_extremes"):
        dtype = "int16"
    if cls == "n2":
        n = 2
    elif cls == "n25":
        n = 25
    elif cls == "wide_4xW":
        H, W = int(rng.integers(4, 6)), int(rng.integers(30, 41))
    elif cls == "tall_Hx4":
        H, W = int(rng.integers(30, 41)), int(rng.integers(4, 6))
    elif cls == "odd_sizes":
        H, W = int(rng.integers(2, 20)) * 2 + 1, int(rng.integers(2, 20)) * 2 + 1
    if cls == "pow2_sizes":                # block-boundary sizes 2**k - 1, 2**k, 2**k + 1 inside the quantifier
        H, W = int(rng.choice([7, 8, 9, 15, 16, 17, 31, 32, 33])), int(rng.choice([7, 8, 9, 15, 16, 17, 31, 32, 33]))
        n = int(rng.choice([2, 3, 4, 5, 7, 8, 9, 15, 16, 17, 25]))
    elif cls == "max_sizes":               # the largest stack the quantifier allows (and one below on either image axis)
        n, H, W = 25, int(rng.choice([40, 40, 39])), int(rng.choice([40, 40, 39]))
    elif cls == "bin_integer_means":
        H, W = int(rng.integers(12, 41)), int(rng.integers(12, 41))
    if cls in ("square", "pow2_sizes", "max_sizes"):
        W = H if cls == "square" else W
    elif H == W:
        W = W + 1 if W < 40 else W - 1
        if cls == "odd_sizes":
            W = W + 1 if W < 39 else W - 3
    if cls in ("remove_all_but_one", "remove_ends") and n < 3:
        n = 3
    nyx = _pixels(rng, cls, n, H, W, dtype)
    if cls == "f32_limits":                # representability boundaries: must come back bit-for-bit (binning factor forced to 1 below)
        nyx = rng.choice(F32_LIMITS, (n, H, W)).astype(np.float32)
        nyx[:, 0, 0] = np.arange(n, dtype=np.float32) + np.float32(100000.0)          # adjacent integers just above 1e5 tell the tilts apart
    elif cls == "duplicate_tilts":         # exact duplicates: some tilt images identical, one constant
        for _ in range(int(rng.integers(1, 4))):
            a_, b_ = (int(q) for q in rng.choice(n, 2, replace=False))
            nyx[b_] = nyx[a_]
        nyx[int(rng.integers(0, n))] = nyx.reshape(-1)[0]
    if cls == "zero_stack":                # value-specific semantics: all-zero images / one single distinct value
        nyx = np.zeros_like(nyx) if rng.random() < 0.6 else np.full_like(nyx, nyx.reshape(-1)[0])
    angles, akind = _angles(rng, cls, n)
    # index subset (0-based, in the order it will be handed over)
    k = int(rng.integers(1, n))
    if cls == "remove_single":
        k = 1
    elif cls == "remove_all_but_one":
        k = n - 1
    idx0 = [int(v) for v in rng.choice(n, k, replace=False)]
    if cls == "remove_ends":
        idx0 = [n - 1, 0] + [v for v in idx0 if v not in (0, n - 1)][: max(0, min(k, n - 1) - 2)]
    if rng.random() < 0.3:
        idx0 = sorted(idx0)
    # flip axes
    m = 1 if rng.random() < 0.6 else int(rng.integers(2, 4))
    if cls == "multi_flip":
        m = int(rng.integers(2, 5))
    axes = [str(a) for a in (rng.choice(["x", "y", "z"], m, replace=False) if m <= 3 and cls != "multi_flip" else rng.choice(["x", "y", "z"], m))]
    # crop
    mode = str(rng.choice(["both", "both", "width_only", "height_only", "full"]))
    w, h = int(rng.integers(1, W + 1)), int(rng.integers(1, H + 1))
    if cls == "crop_parity":
        mode = "both"
        w = int(rng.choice([1, 2, 3, W - 1, W, max(1, W // 2), max(1, W // 2 + 1)]))
        h = int(rng.choice([1, 2, 3, H - 1, H, max(1, H // 2), max(1, H // 2 + 1)]))
    if mode == "width_only":
        h = None
    elif mode == "height_only":
        w = None
    elif mode == "full":
        w, h = W, H
    # bin
    mn = min(H, W)
    b = int(rng.choice([1, 2, 2, 3, 4, 5, int(rng.integers(1, mn + 1))]))
    if cls == "bin_edges":
        cands = [v for v in range(2, mn + 1) if H % v or W % v] or [mn]
        b = int(rng.choice([mn, mn - 1, int(rng.choice(cands)), int(rng.choice(cands)), 3]))
    b = max(1, min(b, mn))
    if cls in ("i16_random", "i16_extremes"):
        b = max(2, b)                      # random int16 pixels: block means are non-integral
    if cls == "f32_limits":
        b = 1                              # float32 max / subnormals: a sum over several pixels would overflow or lose them
    if cls == "bin_integer_means":         # every factor is drawn (not only the small ones); exact integral block means
        b = int(rng.integers(2, mn + 1)) if rng.random() < 0.7 else int(rng.choice([v for v in (7, 14, 27, 28, 29, 13, 11, 19, 23, 31, 37) if v <= mn]))
        if rng.random() < 0.8:
            dtype = "int16"
        nyx = _integer_mean_pixels(rng, n, H, W, b, dtype)
    # configurations
    variants = {}
    for op in OPS:
        vs = _base_variants(rng, cls)
        rot = int(rng.integers(0, 4))
        for kk, v in enumerate(vs):
            if op == "sort":
                v["ang"] = ["list", "array", "file", "array32"][(kk // 2 + rot) % 4]
                if cls == "angles_hostile" and kk >= 2:
                    v["ang"] = "file"
            elif op == "remove":
                pool = ["txt", "csv", "csv_removed", "txt"] if cls == "idx_files" else ["array", "list", "array_i32", "txt", "array_i16", "csv", "array_u8", "csv_removed", "array", "csv"]
                if kk == 0:
                    rot, first1 = int(rng.integers(0, len(pool))), bool(rng.random() < 0.5)
                v["idx"] = pool[(kk // 2 + rot) % len(pool)]
                v["from1"] = first1 if kk < 2 else not first1
                v["flag"] = str(rng.choice(["py", "py", "np", "int"]))
            elif op == "flip":
                if kk % 2 == 0:
                    as_str = bool(len(axes) == 1 and rng.random() < 0.5)
                v["axes_as"] = "str" if as_str else "list"
            elif op == "crop":
                v["none_for_full"] = bool(rng.random() < 0.5)
                if kk % 2 == 0:
                    num = str(rng.choice(["int", "npint"]))
                v["num"] = num
            elif op == "bin":
                if kk % 2 == 0:
                    num = str(rng.choice(["int", "npint", "str"]))
                v["num"] = num
        if op == "bin" and cls in ("i16_random", "i16_extremes", "bin_integer_means"):
            vs[0]["out_file"] = vs[1]["out_file"] = True       # written file of an int16 binning: array and file input
        variants[op] = vs
    fmt = {"ang_style": str(rng.choice(["plain", "aligned", "crlf", "no_final_newline", "g", "odd_tokens"])),
           "csv_truth": str(rng.choice(["bool", "int01", "int01", "upper", "lower", "mixed_case"])),
           "path_style": str(rng.choice(PATH_STYLES)) if cls == "hostile_paths" or rng.random() < 0.5 else "plain",
           "ang_ext": str(rng.choice([".tlt", ".rawtlt", ".txt", ".csv"])),
           "idx_style": str(rng.choice(["plain", "crlf", "no_final_newline", "aligned"])),
           "idx_ext": str(rng.choice([".txt", ".dat"])), "in_ext": str(rng.choice([".mrc", ".mrc", ".st", ".ali"])),
           "out_ext": str(rng.choice([".mrc", ".mrc", ".rec"]))}
    n_gone = int(rng.integers(1, 5))
    gone_rows = sorted(int(v) for v in rng.choice(n + n_gone, n_gone, replace=False))     # rows of the flag table already removed
    gone_flags = [bool(v) for v in rng.random(n_gone) < 0.5]
    case = {"i": i, "cls": cls, "nyx": nyx, "dtype": dtype, "angles": angles, "idx0": idx0, "axes": axes, "crop": (w, h), "bin": b,
            "variants": variants, "fmt": fmt, "gone_rows": gone_rows, "gone_flags": gone_flags}
    case["summary"] = {"nyx": [n, H, W], "dtype": dtype, "angles": angles.tolist(), "angle_kind": akind, "remove_0based": idx0, "axes": axes,
                       "crop_w_h": [w, h], "bin": b, "fmt": fmt,
                       "configs": {op: ["%s/%s>%s%s%s" % (v["in"][0] + (v["layout"][0] if v["in"] == "array" else ""), v["in_order"], v["out_order"],
                                                          "+f" if v["out_file"] else "", "".join(":" + str(v[q]) for q in ("ang", "idx", "from1", "axes_as", "num") if q in v))
                                        for v in variants[op]] for op in OPS},
                       "pixels": [float(x) for x in nyx.reshape(-1)[:4]]}
    return case


def nontrivial(case):
    n, H, W = case["nyx"].shape
    a = case["angles"]
    return n >= 3 and H != W and bool(np.any(np.diff(a) < 0))


# ---- driver ---------------------------------------------------------------------------------------
class OrderStr(str):
    """a str subclass, as a configuration layer might hand over"""


def _ord(s, kind):
    """the same order string as a source literal, as a string BUILT AT RUN TIME (not interned: what a config file, argparse or
    string manipulation yields), as a str subclass, or via upper().lower()"""
    if kind == "built":
        return "".join([c for c in s])
    if kind == "subclass":
        return OrderStr("".join(list(s)))
    if kind == "lowered":
        return ("." + s.upper()).lower()[1:]
    return s


ORD_KINDS = ["literal", "built", "subclass", "lowered"]


def _flag(x, kind):
    return {"py": bool(x), "np": np.bool_(x), "int": int(bool(x))}[kind]


def _count(ctx, key):
    ctx.extra[key] = ctx.extra.get(key, 0) + 1


PATH_STYLES = ["dotted", "dotted", "spaces", "subdir", "glob_chars", "non_ascii", "ext_letters", "relative"]


def _case_dir(ctx, case):
    style = case["fmt"].get("path_style", "plain")
    top = "c%s" % case["i"]
    sub = {"subdir": os.path.join(top, "sub.dir", "deeper"), "spaces": top + " my run", "glob_chars": top + "[1]*?",
           "non_ascii": top + "_t\u00f6m\u00f6_\u00df"}.get(style, top)
    d = os.path.join(ctx.scratch, sub)
    os.makedirs(d, exist_ok=True)
    return d


def _hostile_path(ctx, case, name):
    """output / parameter file names inside the case's own directory: dots inside the stem (pos_1.2, TS_03.5deg), spaces,
    sub-directories, [ ] * ?, non-ASCII letters, stems ending in the letters of the extension, relative paths (cwd = scratch)"""
    style = case["fmt"].get("path_style", "plain")
    stem, ext = os.path.splitext(name)
    if style == "dotted":
        stem = ("TS_03.5deg_" + stem) if case["i"] % 2 else (stem + "_pos_1.2")
    elif style == "spaces":
        stem = "my " + stem + " v2"
    elif style == "glob_chars":
        stem = stem + "[0]*"
    elif style == "non_ascii":
        stem = "sp\u00e4t_" + stem
    elif style == "ext_letters":
        stem = stem + ext.lstrip(".")
    p = os.path.join(_case_dir(ctx, case), stem + ext)
    return os.path.relpath(p, ctx.scratch) if style == "relative" else p


def _path_plain(ctx, case, name):
    return os.path.join(ctx.scratch, "c%s_%s" % (case["i"], name))


def _path(ctx, case, name):
    return _hostile_path(ctx, case, name)


POOL_NAMES = {".mrc": "pool in.v1.2.mrc", ".st": "pool[in]*\u00e9.st", ".ali": "poolali.ali"}


def _pool_file(ctx, case, nyx, tag, force=False):
    """File input comes from a small pool of REUSED paths (one per extension, shared by all configurations and all cases
    of the process); the path is rewritten with the independent writer whenever the stack it has to hold changes - as a
    user (or another program) replacing a file between two operations would."""
    p = os.path.join(ctx.scratch, POOL_NAMES[case["fmt"]["in_ext"]])
    pool = ctx.__dict__.setdefault("_c15_pool", {})
    key = (case["i"], tag)
    if force or pool.get(p) != key:
        files.write_mrc_raw(p, nyx.transpose(2, 1, 0), mode=MODE[str(nyx.dtype)])
        pool[p] = key
        _count(ctx, "pool_file_rewritten:" + case["fmt"]["in_ext"])
    return p


def _stack_input(ctx, case, v, nyx=None, tag="in"):
    nyx = case["nyx"] if nyx is None else nyx
    if v["in"] == "file":
        return _pool_file(ctx, case, nyx, tag)
    a = orc.from_nyx(nyx, v["in_order"])
    lay = v["layout"]
    if lay == "view":                      # not C-contiguous
        a = np.asfortranarray(a) if a.flags.c_contiguous else a.copy(order="K")
    elif lay == "strided":
        big = np.zeros(tuple(2 * s for s in a.shape), dtype=a.dtype)
        big[1::2, ::2, 1::2] = a
        a = big[1::2, ::2, 1::2]
    elif lay == "swapaxes":                # partially permuted axes: a view of an array stored with axes 1 and 2 exchanged
        a = np.ascontiguousarray(np.swapaxes(a, 1, 2)).swapaxes(1, 2)
    elif lay == "negstride":               # negative strides on two axes
        a = np.ascontiguousarray(a[::-1, :, ::-1])[::-1, :, ::-1]
    else:
        a = np.array(a, order="C", copy=True)
        if lay == "readonly":
            a.flags.writeable = False
    return a


def _write_lines(path, toks, style):
    if style == "aligned":
        toks = ["%8s" % t for t in toks]
    nl = "\r\n" if style == "crlf" else "\n"
    txt = nl.join(toks) + ("" if style == "no_final_newline" else nl)
    with open(path, "wb") as f:
        f.write(txt.encode("ascii"))


def _angles_input(ctx, case, v, k):
    a = case["angles"]
    if v["ang"] == "list":
        return [float(x) for x in a]
    if v["ang"] == "array":
        return np.array(a, dtype=np.float64)
    if v["ang"] == "array32":
        return np.array(a, dtype=np.float32)
    p = _path(ctx, case, "angles%d%s" % (k, case["fmt"]["ang_ext"]))
    style = case["fmt"]["ang_style"]
    _write_lines(p, [("%g" % x) if style == "g" else (_odd_token(x, j) if style == "odd_tokens" else ("%.3f" % x)) for j, x in enumerate(a)], style)
    return p


def _odd_token(x, j):
    """valid but unusual spellings of a number with <= 3 decimals: +12.340, 1.234500E+01, -.250, 5., -6.012300e+01"""
    s3 = "%.3f" % x
    form = j % 5
    if form == 0:
        return s3 if s3.startswith("-") else "+" + s3
    if form == 1:
        return "%.6E" % x
    if form == 2 and abs(x) < 1:
        return s3.replace("0.", ".", 1)
    if form == 3:
        return s3.rstrip("0")
    return "%.6e" % x


def _indices_input(ctx, case, v, k):
    idx0, n = case["idx0"], case["nyx"].shape[0]
    off = 1 if v["from1"] else 0
    kind = v["idx"]
    if kind == "list":
        return [int(x) + off for x in idx0]
    if kind == "array":
        return np.array(idx0, dtype=np.int64) + off
    if kind in ("array_i32", "array_i16", "array_u8"):
        return (np.array(idx0) + off).astype({"array_i32": np.int32, "array_i16": np.int16, "array_u8": np.uint8}[kind])
    if kind == "txt":
        p = _path(ctx, case, "idx%d%s" % (k, case["fmt"]["idx_ext"]))
        _write_lines(p, [str(int(x) + off) for x in idx0], case["fmt"]["idx_style"])
        return p
    p = _path(ctx, case, "idx%d.csv" % k)
    truth = case["fmt"].get("csv_truth", "bool")

    def sp(flag, j, for_removed=False):
        # spellings of a flag: True/False, 1/0 (integers; the Removed column stays boolean-spelled), TRUE/FALSE, true/false, mixed
        t = "bool" if (for_removed and truth == "int01") else truth
        if t == "int01":
            return "1" if flag else "0"
        w = "True" if flag else "False"
        return {"bool": w, "upper": w.upper(), "lower": w.lower(), "mixed_case": [w, w.upper(), w.lower()][j % 3]}[t]
    flags = [q in set(idx0) for q in range(n)]
    rows = []
    if kind == "csv":
        rows = ["Idx,TiltAngle,ToBeRemoved"] + ["%d,%.2f,%s" % (q, case["angles"][q], sp(flags[q], q)) for q in range(n)]
    else:
        rows = ["Idx,ToBeRemoved,Removed"]
        q = 0
        for r in range(n + len(case["gone_rows"])):
            if r in case["gone_rows"]:
                rows.append("%d,%s,%s" % (r, sp(case["gone_flags"][case["gone_rows"].index(r)], r), sp(True, r, True)))
            else:
                rows.append("%d,%s,%s" % (r, sp(flags[q], r), sp(False, r, True)))
                q += 1
    with open(p, "w") as f:
        f.write("\n".join(rows) + "\n")
    return p


def _num(x, how):
    if x is None:
        return None
    return {"int": int(x), "npint": np.int64(x), "str": str(x)}[how]


def _shared(objs, key, build):
    """one parameter object per (operation, representation) and case: every configuration that uses this representation
    receives the SAME object, as a user holding it in a variable would; a pristine copy is kept next to it"""
    if key not in objs:
        o = build()
        objs[key] = (o, o.copy() if isinstance(o, np.ndarray) else (list(o) if isinstance(o, list) else o))
    return objs[key][0]


def _params_unchanged(ctx, objs, used, op, v):
    for key in used:
        o, c = objs[key]
        if isinstance(o, np.ndarray):
            same = o.dtype == c.dtype and o.shape == c.shape and bool(np.array_equal(o, c))
        else:
            same = type(o) is type(c) and o == c
        ctx.check("params_unchanged", same, None if same else {"op": FN[op], "parameter": [str(q) for q in key], "type": type(o).__name__,
                                                             "before_first_call": c, "now": o, "config": v})


def _run_variant(ctx, case, op, k, v, objs):
    ts = ctx.ts
    used = []

    def shared(key, build):
        used.append(key)
        return _shared(objs, key, build)
    stack = _stack_input(ctx, case, v)
    out = _path(ctx, case, "%s%d_out%s" % (op, k, case["fmt"]["out_ext"])) if v["out_file"] else None
    kw = dict(input_order=_ord(v["in_order"], v.get("ord_in", "literal")), output_order=_ord(v["out_order"], v.get("ord_out", "literal")))
    _count(ctx, "order_strings:in=%s,out=%s/%s" % (v.get("ord_in", "literal"), v["out_order"], v.get("ord_out", "literal")))
    if op == "sort":
        args = (stack, shared(("angles", v["ang"]), lambda: _angles_input(ctx, case, v, k)))
        kw["output_file"] = out
        _count(ctx, "angles_as:" + v["ang"])
    elif op == "remove":
        args = (stack, shared(("indices", v["idx"], v["from1"]), lambda: _indices_input(ctx, case, v, k)))
        kw.update(numbered_from_1=_flag(v["from1"], v.get("flag", "py")), output_file=out)
        _count(ctx, "indices_as:%s/%s" % (v["idx"], "1-based" if v["from1"] else "0-based"))
    elif op == "split":
        args = (stack,)
        kw["output_file_prefix"] = out[:-4] if out else None
    elif op == "flip":
        args = (stack, shared(("axes", v["axes_as"]), lambda: case["axes"][0] if v["axes_as"] == "str" else list(case["axes"])))
        kw["output_file"] = out
    elif op == "crop":
        n, H, W = case["nyx"].shape
        w, h = case["crop"]
        if v["none_for_full"]:
            w = None if w == W else w
            h = None if h == H else h
        args = (stack,)
        kw.update(new_width=shared(("new_width", v["num"], w), lambda: _num(w, v["num"])),
                  new_height=shared(("new_height", v["num"], h), lambda: _num(h, v["num"])), output_file=out)
    else:
        args = (stack, shared(("factor", v["num"]), lambda: _num(case["bin"], v["num"])))
        kw["output_file"] = out
    _count(ctx, "config:in=%s%s,out=%s,file=%d" % (v["in"], "/" + v["in_order"], v["out_order"], int(bool(out))))
    ok, res = ctx.call(FN[op], getattr(ts, FN[op]), *args, **kw)
    _params_unchanged(ctx, objs, used, op, v)
    if not ok:
        return None
    parts = res if op == "split" else (res,)
    if not (isinstance(parts, tuple) and all(isinstance(r, np.ndarray) and r.ndim == 3 for r in parts)):
        return None                        # already recorded by the call monitor
    return tuple(np.array(orc.to_nyx(r, v["out_order"]), copy=True) for r in parts)


def _same(case, op, r0, r1):
    if len(r0) != len(r1):
        return {"what": "number of returned arrays"}
    for a, b in zip(r0, r1):
        if op == "bin":
            n, H, W = case["nyx"].shape
            bb = case["bin"]
            hb, wb = H // bb, W // bb
            if a.shape[0] != b.shape[0] or min(a.shape[1], b.shape[1]) < hb or min(a.shape[2], b.shape[2]) < wb:
                return {"what": "shape (n,y,x)", "first": list(a.shape), "other": list(b.shape)}
            _, amax = orc.block_means(case["nyx"], bb)
            w = orc.diff_tol(b[:, :hb, :wb], a[:, :hb, :wb].astype(np.float64), 2 * orc.bin_tolerance(case["nyx"].dtype, amax) if case["dtype"] == "float32"
                             else np.zeros(amax.shape))
        else:
            w = orc.diff_exact(b, a)
        if w is not None:
            return w
    return None


def _judge_original(ctx, case, op, v, r, nyx=None, monitor=None, params=None):
    """driver-side: the result against the selection computed from the ORIGINAL parameter values of the case (never from
    the parameter objects, which the calls share); `params` overrides them with the values a history step holds NOW"""
    nyx = case["nyx"] if nyx is None else nyx
    if params:
        case = dict(case, **params)
    if op == "bin":
        w = orc.diff_binned(r[0], nyx, case["bin"])
    else:
        if op == "sort":
            exp = (orc.exp_sort(nyx, case["angles"])[0],)
        elif op == "remove":
            exp = (orc.exp_remove(nyx, case["idx0"])[0],)
        elif op == "split":
            exp = orc.exp_split(nyx)
        elif op == "flip":
            exp = (orc.exp_flip(nyx, case["axes"]),)
        else:
            exp = (orc.exp_crop(nyx, case["crop"][0], case["crop"][1]),)
        w = None
        for got, e in zip(r, exp):
            w = w or orc.diff_exact(got, e)
    ctx.check(monitor or FN[op], w is None, w and dict(w, op=FN[op], judged="driver: against the original parameter values of the case", config=v))


def _mutated_history(ctx, case, rng):
    """three calls on caller-owned objects (stack array, angle array, index array, axes list) that are modified IN PLACE
    between the calls: every call is judged against the values the objects hold at that moment (call monitors copy the
    arguments at call time; the driver recomputes the selection from copies taken just before the call)"""
    ts = ctx.ts
    n = case["nyx"].shape[0]
    o_in = orc.ORDERS[int(rng.integers(0, 2))]
    S = np.array(orc.from_nyx(case["nyx"], o_in), order="C", copy=True)
    ang = np.array(case["angles"], dtype=np.float64)
    from1 = bool(rng.integers(0, 2))
    idx = np.array(case["idx0"], dtype=np.int64 if rng.random() < 0.5 else np.int32) + (1 if from1 else 0)
    axes = list(case["axes"])
    for step in range(3):
        op = str(rng.choice(["sort", "remove", "flip", "split", "crop", "bin"], p=[0.25, 0.25, 0.2, 0.1, 0.1, 0.1]))
        o_out = orc.ORDERS[int(rng.integers(0, 2))]
        now = {"angles": ang.copy(), "idx0": [int(q) - (1 if from1 else 0) for q in idx], "axes": list(axes)}
        nyx_now = np.array(orc.to_nyx(S, o_in), copy=True)
        kw = dict(input_order=_ord(o_in, ORD_KINDS[(step + case["i"]) % 4]), output_order=_ord(o_out, ORD_KINDS[(step + 1 + case["i"]) % 4]))
        if op == "sort":
            args = (S, ang)
        elif op == "remove":
            args = (S, idx)
            kw["numbered_from_1"] = from1
        elif op == "flip":
            args = (S, axes)
        elif op == "crop":
            args = (S,)
            kw.update(new_width=case["crop"][0], new_height=case["crop"][1])
        elif op == "bin":
            args = (S, int(case["bin"]))
        else:
            args = (S,)
        ok, res = ctx.call(FN[op], getattr(ts, FN[op]), *args, **kw)
        parts = res if op == "split" else (res,)
        if ok and isinstance(parts, tuple) and all(isinstance(q, np.ndarray) and q.ndim == 3 for q in parts):
            r = tuple(np.array(orc.to_nyx(q, o_out), copy=True) for q in parts)
            _judge_original(ctx, case, op, {"step": step + 1, "op": FN[op], "input_order": o_in, "output_order": o_out,
                                            "objects": "same stack / angle / index / axes objects as in the earlier steps, modified in place"},
                            r, nyx=nyx_now, monitor="mutated_history", params=now)
        # the caller now changes its own objects in place
        S[...] = S[::-1, ::-1, ::-1].copy()
        S.reshape(-1)[int(rng.integers(0, S.size))] = S.reshape(-1)[0]
        ang[:] = ang[rng.permutation(n)]
        idx[:] = rng.choice(n, len(idx), replace=False) + (1 if from1 else 0)
        axes[:] = [str(q) for q in rng.choice(["x", "y", "z"], len(axes))]
    _count(ctx, "mutated_history:cases")


def _plain_call(ctx, case, op, stack, out_order, out_file=None, in_order="xyz", ord_kind="built"):
    """one call with fresh parameter objects built from the case's original values -> tuple of n,y,x arrays or None"""
    ts = ctx.ts
    kw = dict(input_order=_ord(in_order, ord_kind), output_order=_ord(out_order, ord_kind))
    if op == "sort":
        args = (stack, np.array(case["angles"], dtype=np.float64))
    elif op == "remove":
        args = (stack, [int(q) for q in case["idx0"]])
        kw["numbered_from_1"] = False
    elif op == "split":
        args = (stack,)
    elif op == "flip":
        args = (stack, list(case["axes"]))
    elif op == "crop":
        args = (stack,)
        kw.update(new_width=case["crop"][0], new_height=case["crop"][1])
    else:
        args = (stack, int(case["bin"]))
    if op == "split":
        kw["output_file_prefix"] = out_file[:-4] if out_file else None
    else:
        kw["output_file"] = out_file
    ok, res = ctx.call(FN[op], getattr(ts, FN[op]), *args, **kw)
    parts = res if op == "split" else (res,)
    if not ok or not (isinstance(parts, tuple) and all(isinstance(q, np.ndarray) and q.ndim == 3 for q in parts)):
        return None
    return tuple(np.array(orc.to_nyx(q, out_order), copy=True) for q in parts)


def _file_replaced(ctx, case, rng):
    """an operation on file P, then P replaced by other means (independent writer) with a different stack of the same or
    of another shape, then an operation on P again with no other file load in between: the second result must be the
    selection from the stack that P holds NOW"""
    A = case["nyx"]
    how = str(rng.choice(["same_shape", "same_shape", "other_shape", "other_dtype"]))
    if how == "other_shape" and A.shape[1] != A.shape[2]:
        B = np.ascontiguousarray(A.transpose(0, 2, 1))                    # (n, W, H)
    elif how == "other_dtype":
        B = (np.clip(np.round(A.astype(np.float64)), -30000, 30000).astype(np.int16)[:, ::-1, :] if A.dtype.kind == "f"
             else A.astype(np.float32)[:, :, ::-1] + np.float32(0.5))
        B = np.ascontiguousarray(B)
    else:
        how = "same_shape"
        B = np.ascontiguousarray(A[::-1, ::-1, ::-1])
    if np.array_equal(np.asarray(A, dtype=np.float64), np.asarray(B, dtype=np.float64)) if A.shape == B.shape else False:
        return
    ops2 = [o for o in OPS if not (o == "crop" and B.shape != A.shape)]
    op1, op2 = OPS[int(rng.integers(0, len(OPS)))], ops2[int(rng.integers(0, len(ops2)))]
    o1, o2 = orc.ORDERS[int(rng.integers(0, 2))], orc.ORDERS[int(rng.integers(0, 2))]
    out2 = _path(ctx, case, "replaced_out.mrc") if rng.random() < 0.5 else None
    P = _pool_file(ctx, case, A, "replaced_A", force=True)
    r1 = _plain_call(ctx, case, op1, P, o1)
    if r1 is not None:
        _judge_original(ctx, case, op1, {"step": "first operation on the file", "op": FN[op1]}, r1, nyx=A, monitor="file_replaced")
    P2 = _pool_file(ctx, case, B, "replaced_B", force=True)
    r2 = _plain_call(ctx, case, op2, P2, o2, out2)
    _count(ctx, "file_replaced:%s" % how)
    if r2 is not None:
        _judge_original(ctx, case, op2, {"step": "same path after the file was replaced (%s)" % how, "first_op": FN[op1], "op": FN[op2],
                                         "stack_before_nyx": list(A.shape), "stack_now_nyx": list(B.shape), "dtype_now": str(B.dtype)},
                        r2, nyx=B, monitor="file_replaced")


def _chain(ctx, case, rng):
    """the very object one operation RETURNED (for 'xyz' output a transposed view of cryoCAT's internal array; or the file it
    wrote) is fed into a second operation, declared in the order it was returned in: the end result must be the composition
    of the two numpy selections computed from the case's original stack"""
    nyx = case["nyx"]
    n = nyx.shape[0]
    first = str(rng.choice(["sort", "flip", "remove", "split"]))
    if first == "remove" and n - len(case["idx0"]) < 2:
        first = "flip"
    if first == "split" and n < 4:
        first = "sort"
    o_in, o_mid, o_out = (orc.ORDERS[int(q)] for q in rng.integers(0, 2, 3))
    via_file = bool(rng.random() < 0.35) and first != "split"
    f1 = _path(ctx, case, "chain_mid.mrc") if via_file else None
    stack = np.array(orc.from_nyx(nyx, o_in), order="C", copy=True)
    kw = dict(input_order=_ord(o_in, "built"), output_order=_ord(o_mid, "built"))
    if first == "sort":
        ok, r1 = ctx.call(FN[first], ctx.ts.sort_tilts_by_angle, stack, [float(q) for q in case["angles"]], output_file=f1, **kw)
        mid = orc.exp_sort(nyx, case["angles"])[0]
    elif first == "flip":
        ok, r1 = ctx.call(FN[first], ctx.ts.flip_along_axes, stack, list(case["axes"]), output_file=f1, **kw)
        mid = orc.exp_flip(nyx, case["axes"])
    elif first == "remove":
        ok, r1 = ctx.call(FN[first], ctx.ts.remove_tilts, stack, [int(q) for q in case["idx0"]], numbered_from_1=np.False_, output_file=f1, **kw)
        mid = orc.exp_remove(nyx, case["idx0"])[0]
    else:
        ok, r1 = ctx.call(FN[first], ctx.ts.split_stack_even_odd, stack, **kw)
        r1 = r1[0] if ok and isinstance(r1, tuple) and len(r1) == 2 else None
        mid = orc.exp_split(nyx)[0]
    if not ok or not isinstance(r1, np.ndarray) or r1.ndim != 3:
        return
    mid = np.array(mid, copy=True)
    second = str(rng.choice(["flip", "crop", "bin", "split"])) if mid.shape[0] >= 2 else "flip"
    fed = f1 if via_file else r1                       # the returned object itself, not a copy
    kw = dict(input_order=_ord(o_mid, "lowered"), output_order=_ord(o_out, "subclass"))
    if second == "flip":
        ok, r2 = ctx.call(FN[second], ctx.ts.flip_along_axes, fed, list(case["axes"]), **kw)
        exp = (orc.exp_flip(mid, case["axes"]),)
    elif second == "crop":
        ok, r2 = ctx.call(FN[second], ctx.ts.crop, fed, new_width=case["crop"][0], new_height=case["crop"][1], **kw)
        exp = (orc.exp_crop(mid, case["crop"][0], case["crop"][1]),)
    elif second == "bin":
        ok, r2 = ctx.call(FN[second], ctx.ts.bin, fed, int(case["bin"]), **kw)
        exp = None
    else:
        ok, r2 = ctx.call(FN[second], ctx.ts.split_stack_even_odd, fed, **kw)
        exp = orc.exp_split(mid)
    parts = r2 if second == "split" else (r2,)
    if not ok or not (isinstance(parts, tuple) and all(isinstance(q, np.ndarray) and q.ndim == 3 for q in parts)):
        return
    got = tuple(orc.to_nyx(q, o_out) for q in parts)
    if exp is None:
        w = orc.diff_binned(got[0], mid, int(case["bin"]))
    else:
        w = None
        for g, e in zip(got, exp):
            w = w or orc.diff_exact(g, e)
    ctx.check("chain", w is None, w and dict(w, first=FN[first], second=FN[second], fed="file written by the first call" if via_file else "the array object the first call returned",
                                             orders=[o_in, o_mid, o_out]))
    _count(ctx, "chain:%s>%s" % (first, second))


def _indices_load_direct(ctx, case):
    """ioutils.indices_load called DIRECTLY by the driver (keyword form, fresh objects/files), for every representation and
    both numberings.  Why: the indices_load call monitor must be reached whatever cryoCAT's internal call structure is - if
    remove_tilts stopped routing through the public indices_load (private helper, inlined code) the monitor would otherwise
    see nothing and the run would turn inconclusive on correct code.  The call monitor judges each call (values, order);
    the driver additionally compares the returned set with the case's original 0-based subset."""
    want = sorted(int(q) for q in case["idx0"])
    j = 0
    for kind in ("list", "array", "array_i32", "txt", "csv", "csv_removed"):
        for from1 in ((True, False) if not kind.startswith("csv") else (bool(case["i"] % 2),)):
            j += 1
            arg = _indices_input(ctx, case, {"idx": kind, "from1": from1}, 100 + j)
            ok, r = ctx.call("indices_load", ctx.io.indices_load, input_data=arg, numbered_from_1=from1)
            if not ok:
                continue
            try:
                got = sorted(int(q) for q in np.atleast_1d(np.asarray(r)).ravel().tolist())
            except Exception:
                got = None
            ctx.check("indices_load_direct", got == want, {"returned_sorted": got if got is None else got[:12], "expected_0based_sorted": want[:12],
                                                           "given_as": kind, "numbered_from_1": from1})


def run_case(ctx, case):
    ts = ctx.ts
    rng = ctx.rng(case["i"], 1)
    nyx = case["nyx"]
    objs = {}
    for op in OPS:
        outs = []
        for k, v in enumerate(case["variants"][op]):
            r = _run_variant(ctx, case, op, k, v, objs)
            if r is not None:
                outs.append((k, v, r))
                _judge_original(ctx, case, op, v, r)
        for k, v, r in outs[1:]:
            w = _same(case, op, outs[0][2], r)
            ctx.check("same_result", w is None, w and dict(w, op=FN[op], first_config=outs[0][1], other_config=v))
        if op == "split":
            for k, v, r in outs:
                ok = r[0].shape[1:] == r[1].shape[1:] and r[0].shape[0] + r[1].shape[0] == nyx.shape[0] and 0 <= r[0].shape[0] - r[1].shape[0] <= 1
                w = orc.diff_exact(orc.interleave(r[0], r[1]), nyx) if ok else {"what": "halves do not interleave", "even": list(r[0].shape), "odd": list(r[1].shape)}
                ctx.check("interleave", w is None, w and dict(w, config=v))
    # flipping twice along each axis restores the stack; the second call is fed with what the first one produced
    for ax in ("x", "y", "z"):
        v1 = {"in": str(rng.choice(["array", "file"])), "in_order": orc.ORDERS[int(rng.integers(0, 2))], "out_order": orc.ORDERS[int(rng.integers(0, 2))],
              "layout": "c"}
        via_file = bool(rng.random() < 0.4)
        f1 = _path(ctx, case, "flip2_%s.mrc" % ax) if via_file else None
        ok, r1 = ctx.call("flip_along_axes", ts.flip_along_axes, _stack_input(ctx, case, v1), ax if rng.random() < 0.5 else [ax],
                          output_file=f1, input_order=_ord(v1["in_order"], "lowered"), output_order=_ord(v1["out_order"], "built"))
        if not ok or not isinstance(r1, np.ndarray):
            continue
        o2 = orc.ORDERS[int(rng.integers(0, 2))]
        second = f1 if via_file else r1
        ok, r2 = ctx.call("flip_along_axes", ts.flip_along_axes, second, [ax],
                          input_order=_ord(v1["out_order"] if not via_file else orc.ORDERS[int(rng.integers(0, 2))], "subclass"), output_order=_ord(o2, "built"))
        if not ok or not isinstance(r2, np.ndarray) or r2.ndim != 3:
            continue
        w = orc.diff_exact(orc.to_nyx(r2, o2), nyx)
        ctx.check("flip_twice", w is None, w and dict(w, axis=ax, first_call=v1, second_input="file written by first call" if via_file else "returned array",
                                                      second_output_order=o2))
    _file_replaced(ctx, case, rng)
    _indices_load_direct(ctx, case)
    _mutated_history(ctx, case, rng)
    _chain(ctx, case, rng)
    top = "c%s" % case["i"]
    for f in os.listdir(ctx.scratch):
        if f == top or (f.startswith(top) and not f[len(top)].isdigit()):
            shutil.rmtree(os.path.join(ctx.scratch, f), ignore_errors=True)


# ---- exhaustive sub-spaces (shard 0): judged by the call monitors ---------------------------------------
def extra(ctx):
    ts = ctx.ts
    rng = ctx.rng(10 ** 6)
    big = ctx.tier == "thorough"
    cnt = 0
    # crop: every (size, new size) pair on each axis, 4..40 / 1..size
    for S in range(4, 41):
        other = 44 - S
        for s in range(1, S + 1):
            for axis in ("height", "width"):
                H, W = (S, other) if axis == "height" else (other, S)
                nyx = rng.integers(-999, 1000, (2, H, W)).astype(np.int16)
                o = 1 + (s * 7) % other
                o_in, o_out = orc.ORDERS[(S + s) % 2], orc.ORDERS[(S // 2 + s) % 2]
                kw = dict(new_height=s, new_width=o) if axis == "height" else dict(new_height=o, new_width=s)
                ctx.call("crop", ts.crop, np.array(orc.from_nyx(nyx, o_in), order="C"), input_order=o_in, output_order=o_out, **kw)
                cnt += 1
    ctx.extra["exhaustive: crop (size 4..40, new size 1..size) pairs x {height, width}"] = cnt
    # remove: every single index and every 'all but one' for n = 2..25, both numberings
    cnt = 0
    for n in range(2, 26):
        nyx = rng.normal(0, 1, (n, 4, 5)).astype(np.float32)
        for q in range(n):
            for from1 in (True, False):
                sets = [[q]] + ([[p for p in range(n) if p != q]] if n > 2 else [])
                for s0 in sets:
                    o_in, o_out = orc.ORDERS[(n + q) % 2], orc.ORDERS[q % 2]
                    idx = [p + (1 if from1 else 0) for p in s0]
                    ctx.call("remove_tilts", ts.remove_tilts, np.array(orc.from_nyx(nyx, o_in), order="C"), idx if q % 2 else np.array(idx),
                             numbered_from_1=from1, input_order=o_in, output_order=o_out)
                    cnt += 1
                    if (n + q) % 3 == 0:
                        # the numbering flag given POSITIONALLY in the documented third slot (tilt_stack, idx_to_remove, numbered_from_1):
                        # judged in the driver against the documented meaning, independent of how the function binds its arguments
                        okp, rp = ctx.call("remove_tilts", ts.remove_tilts, np.array(orc.from_nyx(nyx, "xyz"), order="C"), list(idx), from1)   # default orders: x,y,n in and out
                        if okp:
                            keep = [p for p in range(n) if p not in s0]
                            try:
                                gp = np.asarray(rp)
                                wantp = orc.from_nyx(nyx[keep], "xyz")
                                good = gp.shape == wantp.shape and bool(np.array_equal(gp, wantp))
                            except Exception:
                                good = False
                            ctx.check("remove_tilts_positional_flag", good, {"n": n, "idx_to_remove": idx[:12], "numbered_from_1_positional": from1,
                                                                              "expected_kept_0based": keep[:12]})
                        else:
                            ctx.check("remove_tilts_positional_flag", False, {"n": n, "idx_to_remove": idx[:12], "numbered_from_1_positional": from1,
                                                                              "raised": True})
    ctx.extra["exhaustive: remove_tilts single index / all-but-one, n = 2..25, 0- and 1-based"] = cnt
    # split and flips for every n = 2..25; sort for every rotation of an ascending angle list
    cnt = 0
    for n in range(2, 26):
        nyx = rng.integers(-999, 1000, (n, 5, 4)).astype(np.int16)
        for o_in in orc.ORDERS:
            for o_out in orc.ORDERS:
                a = np.array(orc.from_nyx(nyx, o_in), order="C")
                ok, r = ctx.call("split_stack_even_odd", ts.split_stack_even_odd, a, input_order=o_in, output_order=o_out)
                if ok and isinstance(r, tuple) and len(r) == 2:
                    w = None
                    try:
                        w = orc.diff_exact(orc.interleave(orc.to_nyx(r[0], o_out), orc.to_nyx(r[1], o_out)), nyx)
                    except Exception as e:
                        w = {"what": "halves do not interleave: %s" % e}
                    ctx.check("interleave", w is None, w)
                for ax in ("x", "y", "z"):
                    ctx.call("flip_along_axes", ts.flip_along_axes, a, ax, input_order=o_in, output_order=o_out)
                cnt += 4
        base = np.arange(n) * 3.0 - 60.0
        for rot in (range(n) if big else range(0, n, 3)):
            ctx.call("sort_tilts_by_angle", ts.sort_tilts_by_angle, nyx, np.roll(base, rot), input_order="zyx", output_order="xyz")
            cnt += 1
    ctx.extra["exhaustive: split / flip x,y,z in all 4 order pairs, n = 2..25; sort of rotated angle lists"] = cnt
    # bin: every factor 1..min(H,W) for a few shapes and both dtypes
    cnt = 0
    shapes = [(4, 9), (13, 40), (40, 37), (7, 7)] + ([(40, 40), (25, 31), (5, 38), (36, 4)] if big else [])
    for (H, W) in shapes:
        for dt in ("float32", "int16"):
            nyx = _pixels(rng, "x", 3, H, W, dt)
            for b in range(1, min(H, W) + 1):
                o_in, o_out = orc.ORDERS[b % 2], orc.ORDERS[(b // 2) % 2]
                ctx.call("bin", ts.bin, np.array(orc.from_nyx(nyx, o_in), order="C"), b, input_order=o_in, output_order=o_out)
                cnt += 1
    ctx.extra["exhaustive: bin factor 1..min(H,W) on %d shapes x {float32, int16}" % len(shapes)] = cnt
    # bin: every factor 1..40 on stacks whose complete blocks have exactly integral means (constant, block-constant, one pixel
    # adjusted, multiples of b*b; both signs): an int16 result must EQUAL the mean there, returned array and written file
    cnt = 0
    for b in range(1, 41):
        for (H, W) in [(40, 40), (max(4, b), min(40, max(4, b) + 1 + b % 3))] + ([(min(40, 2 * b + 1), max(4, b))] if big else []):
            for dt in ("int16", "float32"):
                for rep_ in range(2 if not big else 4):
                    nyx = _integer_mean_pixels(rng, 6, H, W, b, dt)
                    o_in, o_out = orc.ORDERS[(b + rep_) % 2], orc.ORDERS[(b // 2 + rep_) % 2]
                    out = os.path.join(ctx.scratch, "sweep_bin_out.mrc") if (b + rep_) % 2 == 0 else None
                    ctx.call("bin", ts.bin, np.array(orc.from_nyx(nyx, o_in), order="C"), b, input_order=o_in, output_order=o_out, output_file=out)
                    cnt += 1
    ctx.extra["exhaustive: bin factor 1..40, integral block means (4 kinds, +/-), {int16, float32}, file on/off"] = cnt
    # bin: every factor 1..40 on constant and near-constant LARGE-valued float32 images, as x,y,n array (transposed view inside
    # cryoCAT) and as n,y,x array: a float32 accumulator without pairwise summation drifts by b*b*2^-24 there (the defect
    # repaired in /repo), a float64 one does not
    cnt = 0
    consts = np.array([32767.0, -32768.0, 30000.25, -25000.5, 16777215.0, 1000.0], dtype=np.float64)
    for b in range(1, 41):
        for kind in ("constant", "near_constant"):
            nyx = np.repeat(consts[:, None, None], 40, axis=1).repeat(40, axis=2)
            if kind == "near_constant":
                nyx = nyx + rng.uniform(-1.0, 1.0, nyx.shape)
            nyx = nyx.astype(np.float32)
            for o_in in orc.ORDERS:
                out = os.path.join(ctx.scratch, "sweep_bin_out.mrc")
                ctx.call("bin", ts.bin, np.array(orc.from_nyx(nyx, o_in), order="C"), b, input_order=o_in, output_order=orc.ORDERS[b % 2], output_file=out)
                cnt += 1
    ctx.extra["exhaustive: bin factor 1..40, (near-)constant large float32 images, array xyz and zyx, file on"] = cnt
