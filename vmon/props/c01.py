"""C01 - EM particle-list files round-trip losslessly for any table column order.

Monitors (DESIGN.md 4/C01):
  em_bytes      post(EmMotl.write_out): the written file, parsed from bytes with struct, is a float32 1xNx20 EM
                volume whose k-th field column equals float32(table[canonical[k]]), NaN -> 0, row order kept.
  em_read       post(EmMotl.read_in): the returned frame has the 20 canonical names and equals the parsed bytes.
  roundtrip     driver: Motl.load(path) / EmMotl(path) (str and pathlib.Path) equal the expected table.
"""
import os
import pathlib

import numpy as np
import pandas as pd

from vmon import gens, monitors
from vmon.oracles import files

PROP = "C01"
RULE = ("cases = generated 20-field tables (stratified over column permutations, NaN holes, extreme float32 values, "
        "dtypes, index kinds, both write paths); non-trivial = N >= 2 and (column order != canonical or NaN present); "
        "distinct by digest of (N, permutation, write path, value class, first rows)")
ASSUMPTIONS = ["EM header layout: byte0 machine code 6 (little endian), byte3 dtype code 5 = float32, int32 dims at 4..16, "
               "data from byte 512 with x fastest", "values equal means numeric equality of float32 values (-0.0 == 0.0)"]

CLASSES = ["zero_rows", "identity", "reversed", "rotated", "random_perm", "nan_holes", "nan_after_construction", "extreme_values",
           "n1", "int_dtypes", "odd_index", "dict_order", "block_sizes"]
# particle counts at which blocked / batched rewrites of the writer or reader go wrong (2**k - 1, 2**k, 2**k + 1)
BLOCK_N = [63, 64, 65, 127, 129, 255, 257, 1023, 1025, 4095, 4097, 8193, 65535, 65536, 65537, 65538, 16385, 32769]
BLOCK_N_THOROUGH = BLOCK_N + [131071, 131073, 196609, 262145]
FMAX = float(np.finfo(np.float32).max)
CANON = gens.COLS


def plan(tier):
    if tier == "quick":
        return dict(n_cases=330, shards=1, classes=CLASSES, timeout_s=600,
                    min_evals={"em_bytes": 300, "em_read": 300, "roundtrip": 300})
    return dict(n_cases=6000, shards=12, classes=CLASSES, timeout_s=3000,
                min_evals={"em_bytes": 5000, "em_read": 5000, "roundtrip": 5000})


# ---- oracle helpers -----------------------------------------------------------------------------
def expected_f32(df):
    """(N,20) float32 array in canonical field order, NaN -> 0; computed from the table alone."""
    cols = []
    for c in CANON:
        v = np.asarray(df[c].to_numpy(), dtype=np.float64)
        v = np.where(np.isnan(v), 0.0, v)
        cols.append(v.astype(np.float32))
    return np.column_stack(cols)


def in_domain_table(df):
    if not isinstance(df, pd.DataFrame) or sorted(map(str, df.columns)) != sorted(CANON) or len(df) < 1:
        return False
    try:
        v = df[CANON].to_numpy(dtype=np.float64)
    except Exception:
        return False
    fin = v[~np.isnan(v)]
    return bool(np.all(np.isfinite(fin)) and (fin.size == 0 or np.abs(fin).max() <= FMAX))


def first_diff(a, b):
    neq = ~(a == b)
    if not neq.any():
        return None
    i, k = np.argwhere(neq)[0]
    return {"row": int(i), "field": CANON[int(k)], "file": float(a[i, k]), "expected": float(b[i, k]),
            "n_wrong_fields": int(neq.any(axis=0).sum()), "n_wrong_cells": int(neq.sum())}


# ---- call monitors ------------------------------------------------------------------------------
def _wo_applicable(A):
    return in_domain_table(getattr(A["self"], "df", None))


def _wo_snapshot(A):
    return expected_f32(A["self"].df)


def _wo_post(ctx, A, exp, result):
    path = str(A["output_path"])
    em = files.parse_em(path)
    n = exp.shape[0]
    if "error" in em:
        ctx.check("em_bytes", False, {"path": path, "parse": em.get("error"), "hdr": {k: em.get(k) for k in ("machine", "code", "dims", "nbytes")}})
        return
    hdr_ok = em["machine"] == 6 and em["code"] == 5 and tuple(em["dims"]) == (20, n, 1) and em["nbytes"] == 512 + 80 * n
    if not hdr_ok:
        ctx.check("em_bytes", False, {"header": {k: em.get(k) for k in ("machine", "code", "dims", "nbytes")}, "expected_dims": (20, n, 1),
                                      "expected_nbytes": 512 + 80 * n})
        return
    got = em["data"][:, :, 0].T            # (N,20)
    ctx.check("em_bytes", first_diff(got, exp) is None, first_diff(got, exp))


def _ri_post(ctx, A, old, result):
    path = str(A["emfile_path"])
    em = files.parse_em(path)
    if "error" in em or em.get("code") != 5 or em["dims"][0] != 20 or em["dims"][2] != 1:
        ctx.ood("em_read")
        return
    df = result[0]
    exp = em["data"][:, :, 0].T
    ok = list(df.columns) == CANON and df.shape == exp.shape
    w = None
    if ok:
        w = first_diff(df.to_numpy(dtype=np.float64), exp.astype(np.float64))
        ok = w is None
    else:
        w = {"columns": list(df.columns), "shape": df.shape, "expected_shape": exp.shape}
    ctx.check("em_read", ok, w)


def setup(ctx):
    from cryocat import cryomotl
    ctx.cm = cryomotl
    f1 = monitors.wrap(ctx, cryomotl.EmMotl, "write_out", "em_bytes", _wo_post, _wo_applicable, _wo_snapshot)
    f2 = monitors.wrap(ctx, cryomotl.EmMotl, "read_in", "em_read", _ri_post)
    ctx.declare("roundtrip")
    monitors.trace(ctx, [("EmMotl.write_out", f1), ("EmMotl.read_in", f2, {"reject_not_20": "columns are expected"}),
                         ("Motl.write_out", cryomotl.Motl.write_out), ("Motl.load", cryomotl.Motl.load),
                         ("Motl.check_df_type", cryomotl.Motl.check_df_type)])


# ---- generator ----------------------------------------------------------------------------------
def gen(ctx, i, cls):
    rng = ctx.rng(i)
    big = ctx.tier == "thorough"
    n = int(rng.choice([1, 2, 3, 5, 17, 64, 300])) if not big else int(rng.choice([1, 2, 7, 100, 999, 5000]))
    if rng.random() < 0.5:
        n = int(rng.integers(1, 301 if not big else 2000))
    if cls == "n1":
        n = 1
    if cls == "block_sizes":
        pool_n = BLOCK_N_THOROUGH if big else BLOCK_N
        n = pool_n[(i // len(CLASSES)) % len(pool_n)]
    df = gens.motl_table(rng, n, tomos=int(rng.integers(1, 4)), signed=bool(rng.integers(0, 2)))
    perm = np.arange(20)
    if cls == "reversed":
        perm = perm[::-1]
    elif cls == "rotated":
        perm = np.roll(perm, int(rng.integers(1, 20)))
    elif cls in ("random_perm", "nan_holes", "extreme_values", "dict_order", "nan_after_construction", "block_sizes") or (cls in ("n1", "int_dtypes", "odd_index") and rng.random() < 0.7):
        perm = rng.permutation(20)
    valcls = "normal"
    if cls == "extreme_values":
        valcls = "extreme"
        pool = np.array([2.0 ** 24 + 1, 2.0 ** 25 + 3, -(2.0 ** 24) - 1, 123456789.0, 3.4e38, -3.4e38, 1e-40, -1e-42, 1e-50,
                         -0.0, 0.1, 1.0 / 3.0, 16777217.0, 1.17549435e-38, 65504.0, 65520.0, 70000.123, 1e-8,
                         # the top of the float32 range: the maximum, the two float32 values below it, float64 values between them
                         FMAX, -FMAX, float(np.nextafter(np.float32(FMAX), np.float32(0))), -float(np.nextafter(np.float32(FMAX), np.float32(0))),
                         float(np.nextafter(np.nextafter(np.float32(FMAX), np.float32(0)), np.float32(0))), FMAX * (1 - 2.0 ** -26),
                         -FMAX * (1 - 2.0 ** -25), 3.402823e38, -3.402823e38, 3.4028233e38,
                         # the bottom: smallest normal, largest / smallest subnormal, values that round to 0
                         float(np.finfo(np.float32).tiny), -float(np.finfo(np.float32).tiny) * (1 - 2.0 ** -24), 1.4e-45, -1.4e-45, 7e-46, 6e-46, 2.5e-46])
        for c in CANON:
            m = rng.random(n) < 0.4
            df.loc[m, c] = rng.choice(pool, int(m.sum()))
    nan_frac = 0.0
    if cls in ("nan_holes", "nan_after_construction") or (cls == "random_perm" and rng.random() < 0.3):
        nan_frac = float(rng.uniform(0.02, 0.3))
    if cls == "int_dtypes":
        for c in ["subtomo_id", "tomo_id", "object_id", "class", "geom2", "geom3"]:
            df[c] = df[c].astype(np.int64 if rng.random() < 0.5 else np.int32)
        df["score"] = df["score"].astype(np.float32)
    holes = None
    if nan_frac > 0:
        holes = rng.random((n, 20)) < nan_frac
        if not holes.any():
            holes[rng.integers(0, n), rng.integers(0, 20)] = True
    if cls == "zero_rows" or rng.random() < 0.1:
        # particles whose 20 fields are all 0 (or all missing): still particles, must survive in place
        zr = rng.random(n) < 0.35
        zr[int(rng.integers(0, n))] = True
        df.loc[zr, :] = 0.0
        if cls == "zero_rows" and rng.random() < 0.5:
            holes = np.zeros((n, 20), dtype=bool) if holes is None else holes
            holes[zr, :] = True
            df.loc[zr, :] = rng.normal(size=(int(zr.sum()), 20))      # values that are then punched out as NaN
            for c in df.columns:
                df[c] = df[c].astype(float)
        if cls == "zero_rows":
            perm = rng.permutation(20) if rng.random() < 0.5 else perm
    names = [CANON[k] for k in perm]
    path_kind = ["Motl.write_out", "EmMotl.write_out"][int(rng.integers(0, 2))]
    case = {"df": df, "names": names, "holes": holes, "cls": cls, "path_kind": path_kind, "valcls": valcls,
            "index_kind": "odd" if cls == "odd_index" else "range", "i": i,
            "identity": bool(np.array_equal(perm, np.arange(20))), "has_nan": holes is not None or cls == "zero_rows"}
    case["summary"] = {"n": n, "column_order": names, "write_path": path_kind, "values": valcls,
                       "nan_cells": int(holes.sum()) if holes is not None else 0, "index": case["index_kind"],
                       "row0": {k: float(df[k].iloc[0]) for k in ("score", "subtomo_id", "x", "phi", "class")}}
    return case


def nontrivial(case):
    return len(case["df"]) >= 2 and (not case["identity"] or case["has_nan"])


def build_input(case, rng):
    df = case["df"].copy()
    if case["holes"] is not None and case["cls"] != "nan_after_construction":
        for k, c in enumerate(CANON):
            if case["holes"][:, k].any() and df[c].dtype.kind == "f":
                df.loc[case["holes"][:, k], c] = np.nan
    if case["cls"] == "dict_order":
        t = pd.DataFrame({c: df[c].to_numpy() for c in case["names"]})
    else:
        t = df[case["names"]]
    if case["index_kind"] == "odd":
        t = t.copy()
        t.index = rng.permutation(len(t)) * 3 + 7
    return t


# ---- driver -------------------------------------------------------------------------------------
def run_case(ctx, case):
    cm = ctx.cm
    rng = ctx.rng(case["i"], 1)
    t = build_input(case, rng)
    # a small pool of REUSED paths: a later case overwrites (within the same second, often with the same N) a file that an
    # earlier case wrote and loaded - what a user does when iterating on "allmotl.em"
    path = os.path.join(ctx.scratch, "m_%d.em" % (case["i"] % 3)) if case["i"] % 4 else os.path.join(ctx.scratch, "u_%d.em" % case["i"])
    if case["i"] % 5 == 2:
        # file names as users choose them: stems ending in the letters of the extension, dots, brackets, wildcards, blanks,
        # non-ASCII letters, sub-directories with such names (all legal POSIX names; reused across cases like the pool above)
        stems = ["ribosome", "proteasome", "ref_frame", "m.e.m", "allmotl_e", "x.em", "motl_[1]", "motl_1", "tomo*", "q?x", "a b c",
                 "\u03b1\u03b2_\u00e9", "mm", ".em_hidden", "refs[bin2]/allmotl_1", "run 1/ribosome", "d.em/e"]
        stem = stems[(case["i"] // 5) % len(stems)]
        path = os.path.join(ctx.scratch, stem + ".em")
        os.makedirs(os.path.dirname(path), exist_ok=True)
    if case["path_kind"] == "Motl.write_out":
        ok, m = ctx.call("Motl(df)", cm.Motl, t)
        if not ok:
            return
        exp = expected_f32(m.df)
        ok, _ = ctx.call("Motl.write_out", m.write_out, path, "emmotl")
    else:
        hdr = getattr(ctx, "_last_header", None)
        if hdr is not None and case["i"] % 3 == 0:
            # the rarely used header= argument: the header of some file loaded earlier (usually another particle count)
            ok, m = ctx.call("EmMotl(df, header)", cm.EmMotl, t, dict(hdr))
        else:
            ok, m = ctx.call("EmMotl(df)", cm.EmMotl, t)
        if not ok:
            return
        if case["cls"] == "nan_after_construction":
            for k, c in enumerate(CANON):
                if case["holes"][:, k].any() and m.df[c].dtype.kind == "f":
                    m.df.loc[case["holes"][:, k], c] = np.nan
        exp = expected_f32(m.df)
        ok, _ = ctx.call("EmMotl.write_out", m.write_out, path)
    if not ok:
        return
    # the table the user handed over (before any constructor copy) is the reference for the round trip
    exp_user = expected_f32(t)
    if case["cls"] != "nan_after_construction" and not np.array_equal(exp, exp_user):
        ctx.check("roundtrip", False, {"stage": "constructor changed the table", **(first_diff(exp, exp_user) or {})})
        return
    # read_in called directly (judged by the em_read monitor whatever route the loaders below take to the reader); its header
    # is handed to a later write_out(header=...)
    okr, rr = ctx.call("EmMotl.read_in(str)", cm.EmMotl.read_in, path)
    if okr and isinstance(rr, tuple) and len(rr) == 2:
        ctx._last_header = rr[1]
    loaders = [("Motl.load(str)", lambda: cm.Motl.load(path)), ("EmMotl(str)", lambda: cm.EmMotl(path)),
               ("EmMotl(Path)", lambda: cm.EmMotl(pathlib.Path(path)))]
    which = loaders[case["i"] % 3:] + loaders[:case["i"] % 3]
    for label, f in which[:2]:
        ok, back = ctx.call(label, f)
        if not ok:
            continue
        bdf = back.df
        good = list(bdf.columns) == CANON and len(bdf) == len(exp)
        w = None
        if good:
            w = first_diff(bdf.to_numpy(dtype=np.float64), exp.astype(np.float64))
            good = w is None
        else:
            w = {"columns": list(bdf.columns), "rows": len(bdf), "expected_rows": len(exp)}
        ctx.check("roundtrip", good, dict(w or {}, loader=label))
    # ---- history: the same object written again, and the same path rewritten with another list of the same length -------
    exp_user64 = exp.astype(np.float64)
    path2 = os.path.join(ctx.scratch, "copy_%d.em" % (case["i"] % 2))
    if case["path_kind"] == "Motl.write_out":
        ok, _ = ctx.call("Motl.write_out(again)", m.write_out, path2, "emmotl")
    else:
        ok, _ = ctx.call("EmMotl.write_out(again)", m.write_out, path2)
    if ok:
        em = files.parse_em(path2)
        good = "error" not in em and tuple(em["dims"]) == (20, len(exp), 1)
        w = {"what": "second write of the same object", "header": {k: em.get(k) for k in ("dims", "code", "nbytes")}}
        if good:
            w2 = first_diff(em["data"][:, :, 0].T.astype(np.float64), exp_user64)
            good = w2 is None
            w = dict(w2 or {}, what="second write of the same object differs from the list the user built")
        ctx.check("roundtrip", good, w)
    # ---- a table DERIVED from a loaded list (columns permuted, some values replaced) is written like any other table -----
    if okr and isinstance(rr, tuple) and isinstance(rr[0], pd.DataFrame) and len(rr[0]) == len(exp):
        drng = ctx.rng(case["i"], 9)
        loaded = rr[0]
        d = loaded[[CANON[k] for k in drng.permutation(20)]]            # DataFrame.attrs and dtypes travel with it
        if drng.random() < 0.7:
            d = d * 1.0 + 0.0
            cc = str(drng.choice(CANON))
            d.loc[d.index[:: max(1, len(d) // 3)], cc] = drng.normal(size=len(d.index[:: max(1, len(d) // 3)])) * 30
        if drng.random() < 0.4:
            d = d.copy()
            d.iloc[int(drng.integers(0, len(d))), int(drng.integers(0, 20))] = np.nan
        exp_d = expected_f32(d).astype(np.float64)
        path3 = os.path.join(ctx.scratch, "derived_%d.em" % (case["i"] % 2))
        if drng.random() < 0.5:
            okd, md = ctx.call("EmMotl(derived)", cm.EmMotl, d)
            okd = okd and ctx.call("EmMotl.write_out(derived)", md.write_out, path3)[0]
        else:
            okd, md = ctx.call("Motl(derived)", cm.Motl, d)
            okd = okd and ctx.call("Motl.write_out(derived)", md.write_out, path3, "emmotl")[0]
        if okd:
            em = files.parse_em(path3)
            good = "error" not in em and tuple(em["dims"]) == (20, len(exp_d), 1)
            w = {"what": "table derived from a loaded list", "header": {k: em.get(k) for k in ("dims", "code", "nbytes")}}
            if good:
                w2 = first_diff(em["data"][:, :, 0].T.astype(np.float64), exp_d)
                good = w2 is None
                w = dict(w2 or {}, what="file written from a table derived from a loaded list (permuted columns) differs from float32(table)")
            ctx.check("roundtrip", good, w)
    # overwrite the first path with a different list of the SAME length and load it again
    other = ctx.rng(case["i"], 7).normal(size=t.shape) * 50
    t2 = pd.DataFrame(other, columns=list(t.columns), index=t.index)
    ok, m2 = ctx.call("EmMotl(df2)", cm.EmMotl, t2)
    if ok:
        exp2 = expected_f32(m2.df)
        ok, _ = ctx.call("EmMotl.write_out(overwrite)", m2.write_out, path)
        if ok:
            ok, back = ctx.call("Motl.load(after overwrite)", cm.Motl.load, path)
            if ok:
                bdf = back.df
                good = list(bdf.columns) == CANON and len(bdf) == len(exp2)
                w = {"what": "file rewritten with another list of the same length, then loaded", "rows": len(bdf)}
                if good:
                    w2 = first_diff(bdf.to_numpy(dtype=np.float64), exp2.astype(np.float64))
                    good = w2 is None
                    w = dict(w2 or {}, what="loading a rewritten file returned something else than what was just written")
                ctx.check("roundtrip", good, w)
