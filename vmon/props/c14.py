"""C14 - Map rotation, placement, windowing and symmetrisation share one active convention.

Call monitors (attached in place on cryocat.cryomap, so calls made from inside cryoCAT are judged too):
  rotate_cube          post(rotate): the requested orientation R (rotation_angles= zxz, or rotation= with
                       transpose_rotation=True - the call place_object makes) is one of the 24 cube rotations ->
                       out[c + R v] = in[c + v] (1e-12) for every voxel c+v at least one voxel away from every face, c = N//2.
  window_indices       post(get_start_end_indices), even window sizes: the slices describe [floor(c-N/2), +N) n [0,V).
  extract_window       post(extract_subvolume), even window sizes: requested window copied, out-of-volume voxels = volume mean.
  coord_unchanged      witness, post(extract_subvolume / get_start_end_indices): the caller's coordinate ndarray keeps its values.
  place_cube           post(place_object), all poses cube rotations, binary templates in even boxes: the container equals the
                       permuted templates stamped at floor(position-1-N/2)+j with the colour field, later particles overwriting.
  sym_mean             post(symmetrize_volume): equals the mean of n real rotate calls by k*360/n (1e-9, non-face voxels).
  sym_invariant_exact  post(symmetrize_volume), n in {2,4}: invariant under the 360/n voxel permutation (1e-12).
Driver-side relational oracles (run_case):
  extract_window_reused   one float64 centre array reused for 2..3 extract_subvolume calls (same/other volume and window size), every
                          call judged against the centre's ORIGINAL values
  rotate_analytic / rotate_centroid / rotate_inverse   random R on Gaussian blobs (closed-form rotated image, centroid, inverse)
  place_random / place_centroid                        random poses, smooth templates: analytic stamp up to an undetermined band
  sym_analytic / sym_invariant / sym_total             closed-form C_n mean, invariance via a real rotate, total density
  link_c05                                             Motl.get_rotations / shift_positions move a particle exactly where rotate
                                                       and place_object move density at the same offset (cube rotations)
"""
import math
import os
import re

import numpy as np
import pandas as pd

from vmon import gens, monitors
from vmon.oracles import so3
from vmon.oracles import c14_oracle as O

PROP = "C14"
RULE = ("cases = generated maps/particle lists stratified over: cube rotations on odd / even / non-cubic noise boxes (3 call spellings, "
        "angle aliases, gimbal splits), random/gimbal/wide-angle rotations of Gaussian blobs, windows inside / partly / fully outside "
        "(fractional and tie coordinates, window larger than the volume), placement of binary and smooth templates for 1..20 poses "
        "(overlapping, partly outside, shifted, filtered lists), C_n symmetrisation for n in 2..12 (n not dividing 360, three spellings), "
        "and the joint particle/density link; non-trivial = rotation not the identity on a non-constant map / window with a defined "
        "class / at least one stamp inside the volume / n >= 2; distinct by digest of (class, shapes, angles, positions, first values)")
TOL_CUBE = 1e-12
TOL_ANALYTIC = 0.01       # of the peak; measured 0.0015 over 400 generated blobs (sigma >= 2 voxels)
TOL_INVERSE = 0.02        # of the peak; measured 0.0032
TOL_CENTROID = 0.01       # voxel; measured 0.00004 (0.0006 with 3.5-sigma instead of 4-sigma clearance)
LEVEL = 0.1               # place_object's threshold on the rotated template
TOL_BAND = 0.004          # measured 0.00044
TOL_STAMP_CENTROID = 0.7  # voxel (binary stamp of a rotated blob; discretisation; measured 0.133 over 832 stamps)
TOL_SYM_MEAN = 1e-9
TOL_SYM_INV = 0.008       # of the peak; measured 0.0009 (probe) / 0.00044 (generated cases)
TOL_SYM_ANALYTIC = 0.003  # of the peak; measured 0.00035
TOL_SYM_TOTAL = 1e-3      # relative; measured 4.8e-5
ASSUMPTIONS = [
    "orientation of zxz angles (phi,theta,psi): R = Rz(psi).Rx(theta).Rz(phi), active on offsets from the box centre c = shape//2 (DESIGN section 3)",
    "rotate is judged for rotation_angles= (coord_space zxz) and for rotation=, transpose_rotation=True; rotation= with transpose_rotation=False "
    "(the inverse convention) is outside the statement and only counted",
    "cube rotations: exact to 1e-12*max|in| on voxels whose SOURCE voxel is at least one voxel away from every face and whose image is in the box",
    "smooth band-limited blobs = sums of 2..5 isotropic Gaussians, sigma in [2.0,2.8] voxels, 4-sigma balls inside the inscribed sphere/cylinder; "
    "interpolation tolerances (5-10x what the unchanged code achieves, spline order 3): rotated map vs closed form 1% of peak (measured 0.15%), "
    "rotate-then-inverse 2% of peak (0.32%), centroid 0.01 voxel (0.00004), symmetrised vs closed-form mean 0.3% (0.035%), invariance of the "
    "symmetrised map under a real rotate by 360/n 0.8% (0.09%), total density 1e-3 relative (4.8e-5)",
    "windows and templates are judged for even box sizes only (quantifier); window = [floor(c - N/2), floor(c - N/2)+N) per axis; copied voxels exact, fill = volume mean to max(1e-9, 64 eps of the volume dtype) relative",
    "place_object thresholds the rotated template at 0.1 (source); smooth templates: voxels whose closed-form rotated value is within 0.004 of 0.1 "
    "are undetermined (measured need 0.00047); stamp centroid within 0.7 voxel of floor(p-1) + R.(centroid of the thresholded template) (measured 0.13)",
    "round 6 forms, all judged (the unchanged tree handles them): maps / templates / containers that are Fortran-ordered, transposed, axis-swapped, negatively "
    "strided, every-other-plane views or read-only; int8 / uint8 / bool / int16 / int64 / float32 maps and templates (generic rotations: result compared with the "
    "result for the same values as float64 at the existing interpolation tolerances - rotate_dtype 1 % of the maximum, sym_dtype 0.3 %, place_dtype exact outside the "
    "0.004 band around the threshold); volume= and a single template given as .em / .mrc / .rec / .st / .mrc.N paths (odd names, sub-directories, relative paths; "
    "parsed from bytes by the monitor); particle tables with repeated / reversed / permuted / gapped row labels and integer-typed position and angle columns; "
    "np.True_ / np.False_ / np.int64 for transpose_rotation, degrees, spline_order; objects returned by one anchor fed into another",
    "outside the quantifier by ruling (forms the unchanged tree does not handle; counted out of domain, never generated): enforce_shape=np.False_ or 0 for "
    "extract_subvolume (the code tests `is not False`: the enforce_shape=True mode is taken); np.int64 symmetry orders (refused with the documented ValueError)",
    "colour = value of the colouring field in the particle's ROW (by position), cast to the container dtype; colour 0 is a colour like any other",
    "resolution for non-right-angle rotations: the implementation-independent oracle (closed-form rotated Gaussians) sees deviations above ~1e-3 of the "
    "peak only (the interpolation error of any reasonable scheme); a perturbation of the pull-back matrix at 1e-6 (density change 2e-6..1e-5 of the peak) "
    "is below the resolution of the statement and is deliberately not chased with an oracle that pins spline order / prefilter / boundary mode",
    "planted inputs: box edges 2**k and 2**k +- 1, templates with 2**k (+-1) voxels set, lists of 20 / 2**k (+-1) poses, window centres and positions one ulp "
    "and 1e-9..5e-7 below / above a voxel boundary (ulp only where c - N/2 is exact in floating point), centres at 1e5+1 / 2**24 / 2**31 / 2**53-128, colours "
    "100001..100003 / 2**24(+1,+2) / 2**31 / 2**53 / 1e-30 / 0, exact duplicate positions and rows, in-place edits of the caller's map / centre array / "
    "particle table between calls, radians with negative and > 2 pi angles, and an option grid (call form x spline order x dtype x parity; window class x "
    "coordinate type x shape type; template list x container x colouring field) in extra()",
    "symmetrize_volume vs mean of real rotate calls is compared on non-face voxels (a 360 degree copy and a 0 degree copy differ on faces only)",
    "MALLOC_PERTURB_=190 is set for the child processes (glibc fills malloc'ed memory with 0x41 bytes) and same-size junk arrays are freed before "
    "symmetrize_volume, so that reads of uninitialised memory show in the result",
]

CLASSES = ["cube_odd", "cube_even", "cube_noncubic", "blob_random", "blob_gimbal", "blob_wide",
           "extract_inside", "extract_partial", "extract_outside",
           "place_cube", "place_overlap", "place_single", "place_random", "place_filtered",
           "sym_exact", "sym_general", "sym_nondivisor", "link_c05"]
CUBES = so3.cube_rotations()


def plan(tier):
    # floors of the call monitors (rotate_cube, window_indices, coord_unchanged) are set from what the DRIVER's own direct calls produce
    # (VERIF_BYPASS_INTERNAL=1: calls made from inside cryocat ignored), stated at 1.6x of 0.8x that count because core halves them
    env = {"MALLOC_PERTURB_": "190"}      # malloc'ed (not calloc'ed) memory is filled with 0x41 bytes: float64 2.26e6, float32 12.08
    if tier == "quick":
        return dict(n_cases=18 * 14, shards=2, classes=CLASSES, timeout_s=600, env=env,
                    min_evals={"rotate_cube": 1600, "rotate_analytic": 40, "rotate_centroid": 40, "rotate_inverse": 40,
                               "window_indices": 1250, "extract_window": 150, "extract_window_reused": 70, "coord_unchanged": 1400, "place_cube": 45, "place_random": 8, "place_centroid": 12, "place_dtype": 8, "rotate_dtype": 20, "sym_dtype": 12,
                               "sym_mean": 40, "sym_invariant_exact": 12, "sym_analytic": 30, "sym_invariant": 30, "sym_total": 30,
                               "link_c05": 40})
    return dict(n_cases=18 * 300, shards=16, classes=CLASSES, timeout_s=3000, env=env,
                min_evals={"rotate_cube": 23000, "rotate_analytic": 800, "rotate_centroid": 800, "rotate_inverse": 800,
                           "window_indices": 28000, "extract_window": 3500, "extract_window_reused": 1500, "coord_unchanged": 32000, "place_cube": 800, "place_random": 180, "place_centroid": 300, "place_dtype": 150, "rotate_dtype": 500, "sym_dtype": 250,
                           "sym_mean": 800, "sym_invariant_exact": 200, "sym_analytic": 500, "sym_invariant": 500, "sym_total": 500,
                           "link_c05": 700})


def _bump(ctx, key, n=1):
    ctx.extra[key] = ctx.extra.get(key, 0) + int(n)


# =====================================================================================================
# call monitors
# =====================================================================================================
def _is_map(x, mindim=1):
    return (isinstance(x, np.ndarray) and x.ndim == 3 and x.dtype.kind in "fiub" and min(x.shape) >= mindim
            and bool(np.all(np.isfinite(x))))


def _requested_rotation(A):
    """orientation R a rotate call asks for, for the two call forms of the statement; None otherwise"""
    rot, ang = A["rotation"], A["rotation_angles"]
    if rot is not None:
        if not (isinstance(A["transpose_rotation"], (bool, np.bool_)) and bool(A["transpose_rotation"])):
            return None
        try:
            R = np.asarray(rot.as_matrix(), dtype=float)
        except Exception:
            return None
        return R if R.shape == (3, 3) else None
    if ang is None or A["coord_space"] != "zxz":
        return None
    try:
        a = np.asarray(ang, dtype=float)
    except Exception:
        return None
    if a.shape != (3,) or not np.all(np.isfinite(a)):
        return None
    if not A["degrees"]:
        a = np.degrees(a)
    return so3.zxz(a[0], a[1], a[2])


def _app_rotate(A):
    if not _is_map(A["input_map"], 3) or A["spline_order"] not in (0, 1, 2, 3, 4, 5):
        return False
    R = _requested_rotation(A)
    if R is None:
        return False
    M = O.as_cube_rotation(R)
    if M is None:
        return False
    A["_M"] = M
    return True


def _snap_rotate(A):
    return np.array(A["input_map"], copy=True)


def _post_rotate(ctx, A, old, res):
    n, w = O.judge_cube_rotation(old, res if isinstance(res, np.ndarray) else None, A["_M"], TOL_CUBE)
    if n == 0 and w is None:
        ctx.ood("rotate_cube")
        return
    if w is not None:
        w["call"] = "rotation=,transpose_rotation=True" if A["rotation"] is not None else "rotation_angles=%s degrees=%s" % (
            np.asarray(A["rotation_angles"], dtype=float).tolist(), A["degrees"])
    _bump(ctx, "rotate_cube_voxels_judged", n)
    ctx.check("rotate_cube", w is None, w)


def _triple_int(x, even=False):
    try:
        a = np.asarray(x)
        if a.shape != (3,) or a.dtype.kind not in "iuf":
            return None
        f = a.astype(float)
        if not np.all(np.isfinite(f)) or not np.all(f == np.round(f)) or f.min() < 1 or f.max() > 4096:
            return None
        t = [int(v) for v in f]
        if even and any(v % 2 for v in t):
            return None
        return t
    except Exception:
        return None


def _triple_float(x):
    try:
        a = np.asarray(x, dtype=float)
    except Exception:
        return None
    if a.shape != (3,) or not np.all(np.isfinite(a)) or np.abs(a).max() > 1e16:
        return None
    return a.copy()


def _app_indices(A):
    c, v, s = _triple_float(A["coord"]), _triple_int(A["volume_shape"]), _triple_int(A["subvolume_shape"], even=True)
    if c is None or v is None or s is None:
        return False
    A["_c"], A["_v"], A["_s"] = c, v, s
    return True


def _snap_coord(A, name):
    """the caller's own coordinate array (when it is an ndarray) and a copy of its values before the call"""
    c = A[name]
    return (c, np.array(c, copy=True)) if isinstance(c, np.ndarray) else None


def _judge_coord_unchanged(ctx, snap, where):
    if snap is None:
        return
    obj, before = snap
    same = obj.shape == before.shape and bool(np.array_equal(obj, before))
    ctx.check("coord_unchanged", same, {"what": "%s changed the caller's coordinate array" % where, "before": before.tolist(),
                                        "after": np.asarray(obj).tolist(), "dtype": str(before.dtype)})


def _snap_indices(A):
    return _snap_coord(A, "coord")


def _post_indices(ctx, A, old, res):
    w = O.judge_indices(A["_c"], A["_v"], A["_s"], res)
    ctx.check("window_indices", w is None, w)
    _judge_coord_unchanged(ctx, old, "get_start_end_indices")


def _app_extract(A):
    if not _is_map(A["volume"], 1) or A["enforce_shape"] is not False:
        return False
    c, s = _triple_float(A["coordinates"]), _triple_int(A["subvolume_shape"], even=True)
    if c is None or s is None:
        return False
    A["_c"], A["_s"] = c, s
    return True


def _snap_extract(A):
    return np.array(A["volume"], copy=True), _snap_coord(A, "coordinates")


def judge_window(vol, coord, shape, res):
    """-> (kind of window, witness or None): res must be the window of `shape` centred at `coord` cut from `vol`"""
    exp, st, n_in = O.expected_window(vol, coord, shape)
    kind = "fully_inside" if n_in == exp.size else ("fully_outside" if n_in == 0 else "partly_outside")
    w = None
    if not isinstance(res, np.ndarray) or res.shape != exp.shape:
        w = {"what": "shape of the subvolume", "got": list(np.shape(res)), "expected": list(exp.shape)}
    else:
        scale = max(1.0, float(np.abs(vol.astype(float)).max()))
        d = np.abs(res.astype(float) - exp)
        # copied voxels exactly; the fill is the volume mean as numpy computes it in the volume's own precision
        idx = [st[k] + np.arange(shape[k]) for k in range(3)]
        src_in = np.ix_(*[(idx[k] >= 0) & (idx[k] < vol.shape[k]) for k in range(3)])
        tol = np.full(exp.shape, max(1e-9, 64.0 * float(np.finfo(vol.dtype).eps) if vol.dtype.kind == "f" else 1e-9) * scale)
        tol[src_in] = 0.0
        bad = ~(d <= tol)
        if bad.any():
            j = np.argwhere(bad)[0]
            src = st + j
            inside = bool(np.all((src >= 0) & (src < np.asarray(vol.shape))))
            w = {"what": "subvolume voxel", "window": kind, "coordinates": np.asarray(coord, dtype=float).tolist(), "subvolume_shape": list(shape),
                 "volume_shape": list(vol.shape), "voxel": j.tolist(), "volume_voxel": src.tolist(), "source_inside_volume": inside,
                 "got": float(res[tuple(j)]), "expected": float(exp[tuple(j)]), "volume_mean": O.mean_of(vol), "n_wrong": int(bad.sum())}
    return kind, w


def _post_extract(ctx, A, old, res):
    vol, snap = old
    kind, w = judge_window(vol, A["_c"], A["_s"], res)
    _bump(ctx, "extract_windows_" + kind)
    ctx.check("extract_window", w is None, w)
    _judge_coord_unchanged(ctx, snap, "extract_subvolume")


def _binary_even_template(T):
    if not _is_map(T, 4) or any(n % 2 for n in T.shape):
        return False
    if not np.all((T == 0) | (T == 1)):
        return False
    return not (T[0].any() or T[-1].any() or T[:, 0].any() or T[:, -1].any() or T[:, :, 0].any() or T[:, :, -1].any())


def _map_argument(x):
    """a map given as an array or as the path of an .em / MRC-family file (parsed from bytes, indexed [x,y,z]) -> ndarray or None"""
    if isinstance(x, np.ndarray):
        return x
    if isinstance(x, str) and os.path.isfile(x):
        from vmon.oracles import files
        d = files.parse_em(x) if x.endswith(".em") else (files.parse_mrc(x) if re.search(r"\.(mrc|ali|rec|st)(\.\d+)?$", x) else {"error": "ext"})
        return None if "error" in d else np.array(d["data"])
    return None


def _place_inputs(A):
    """independent reading of a place_object call -> dict or None (outside the exact clause)"""
    motl = A["motl"]
    df = getattr(motl, "df", None)
    feat = A["feature_to_color"]
    if not isinstance(df, pd.DataFrame) or not set(gens.COLS) <= set(df.columns) or feat not in df.columns:
        return None
    n = len(df)
    if n < 1 or n > 20:
        return None
    obj = A["input_object"]
    if isinstance(obj, str):
        obj = _map_argument(obj)
    if isinstance(obj, np.ndarray):
        templ = [obj] * n
    elif isinstance(obj, list) and len(obj) == n and all(isinstance(t, np.ndarray) for t in obj):
        templ = obj
    else:
        return None
    if not all(_binary_even_template(t) for t in templ):
        return None
    if A["volume"] is not None:
        vol_in = _map_argument(A["volume"])
        if vol_in is None or not _is_map(vol_in, 1) or vol_in.dtype.kind != "f":
            return None
        cont = np.array(vol_in, copy=True)
    else:
        shp = _triple_int(A["volume_shape"])
        if shp is None:
            return None
        cont = np.zeros(shp)
    vals = df[["x", "y", "z", "shift_x", "shift_y", "shift_z", "phi", "theta", "psi", feat]].to_numpy(dtype=float)
    if not np.all(np.isfinite(vals)) or np.abs(vals[:, :6]).max() > 1e16:
        return None
    Rs = gens.rotations(df)
    Ms = [O.as_cube_rotation(R) for R in Rs]
    if any(M is None for M in Ms):
        return None
    return {"templ": [np.array(t, copy=True) for t in templ], "Ms": Ms, "P": gens.positions(df), "colours": df[feat].to_numpy(dtype=float).copy(),
            "cont": cont, "index": list(df.index), "feat": feat}


def _app_place(A):
    d = _place_inputs(A)
    if d is None:
        return False
    A["_d"] = d
    return True


def _post_place(ctx, A, old, res):
    d = A["_d"]
    exp, n_st = O.expected_placement_cube(d["templ"], d["Ms"], d["P"], d["colours"], d["cont"])
    exp = exp.astype(d["cont"].dtype).astype(float)
    _bump(ctx, "place_cube_voxels_stamped", n_st)
    if A["volume"] is not None:
        v = A["volume"]
        _bump(ctx, "place_cube_container_" + ("path" if isinstance(v, str) else "C_order" if v.flags["C_CONTIGUOUS"] else "F_order" if v.flags["F_CONTIGUOUS"] else "strided"))
    _bump(ctx, "place_cube_particles", len(d["P"]))
    w = None
    if not isinstance(res, np.ndarray) or res.shape != exp.shape:
        w = {"what": "shape of the container", "got": list(np.shape(res)), "expected": list(exp.shape)}
    else:
        got = res.astype(float)
        bad = got != exp
        if bad.any():
            j = np.argwhere(bad)[0]
            # which particle should own this voxel (last one whose stamp covers it)
            owner = None
            for i, (T, M, p) in enumerate(zip(d["templ"], d["Ms"], d["P"])):
                st = O.window_start(p - 1.0, T.shape)
                k = j - st
                if np.all((k >= 0) & (k < np.asarray(T.shape))) and O.permuted(T, M)[0][tuple(k)] > 0.5:
                    owner = i
            w = {"what": "container voxel", "voxel": j.tolist(), "got": float(got[tuple(j)]), "expected": float(exp[tuple(j)]),
                 "n_wrong": int(bad.sum()), "owner_particle": owner, "n_particles": len(d["P"]), "feature": d["feat"],
                 "owner_position": d["P"][owner].tolist() if owner is not None else None,
                 "owner_R": d["Ms"][owner].tolist() if owner is not None else None,
                 "template_shape": list(d["templ"][owner or 0].shape), "df_index": d["index"][:8]}
    ctx.check("place_cube", w is None, w)


def parse_order(symmetry):
    """-> n for the spellings of a C_n order inside the quantifier (2..12), else None"""
    if isinstance(symmetry, bool):
        return None
    if isinstance(symmetry, int):
        n = symmetry
    elif isinstance(symmetry, float) and symmetry == int(symmetry):
        n = int(symmetry)
    elif isinstance(symmetry, str) and re.fullmatch(r"[Cc]?\d+", symmetry):
        n = int(re.sub(r"\D", "", symmetry))
    else:
        return None
    return n if 2 <= n <= 12 else None


def _app_sym(A):
    n = parse_order(A["symmetry"])
    if n is None or not _is_map(A["vol"], 4):
        return False
    A["_n"] = n
    return True


def _snap_sym(A):
    return np.array(A["vol"], copy=True)


def _post_sym(ctx, A, vol, res):
    n = A["_n"]
    w = None
    if not isinstance(res, np.ndarray) or res.shape != vol.shape:
        ctx.check("sym_mean", False, {"what": "shape of the symmetrised map", "got": list(np.shape(res)), "expected": list(vol.shape)})
        return
    acc = np.zeros(vol.shape)
    for k in range(1, n + 1):
        acc += ctx.cmap.rotate(vol, rotation_angles=[0.0, 0.0, k * 360.0 / n])      # real rotate (monitoring is off inside post)
    acc /= n
    scale = max(1.0, float(np.abs(vol.astype(float)).max()))
    inner = (slice(1, -1),) * 3
    d = np.abs(res[inner] - acc[inner])
    bad = ~(d <= TOL_SYM_MEAN * scale)
    if bad.any():
        j = np.argwhere(bad)[0] + 1
        w = {"what": "symmetrised voxel != mean of the n rotated copies", "n": n, "voxel": j.tolist(), "got": float(res[tuple(j)]),
             "mean_of_copies": float(acc[tuple(j)]), "n_wrong": int(bad.sum()), "sum_got": float(np.asarray(res, dtype=float).sum()),
             "sum_expected": float(acc.sum())}
    ctx.check("sym_mean", w is None, w)
    if n in (2, 4):
        cnt, w2 = O.judge_exact_invariance(np.asarray(res, dtype=float), n, TOL_CUBE)
        if cnt:
            _bump(ctx, "sym_exact_invariance_voxels_judged", cnt)
            ctx.check("sym_invariant_exact", w2 is None, w2)


def setup(ctx):
    from cryocat import cryomap, cryomotl
    ctx.cmap, ctx.cmotl = cryomap, cryomotl
    f_rot = monitors.wrap(ctx, cryomap, "rotate", "rotate_cube", _post_rotate, _app_rotate, _snap_rotate)
    f_idx = monitors.wrap(ctx, cryomap, "get_start_end_indices", "window_indices", _post_indices, _app_indices, _snap_indices)
    f_ext = monitors.wrap(ctx, cryomap, "extract_subvolume", "extract_window", _post_extract, _app_extract, _snap_extract)
    f_plc = monitors.wrap(ctx, cryomap, "place_object", "place_cube", _post_place, _app_place)
    f_sym = monitors.wrap(ctx, cryomap, "symmetrize_volume", "sym_mean", _post_sym, _app_sym, _snap_sym)
    ctx.declare("place_dtype", "rotate_dtype", "sym_dtype", "coord_unchanged", "extract_window_reused", "sym_invariant_exact", "rotate_analytic", "rotate_centroid", "rotate_inverse", "place_random", "place_centroid",
                "sym_analytic", "sym_invariant", "sym_total", "link_c05")
    Mo = cryomotl.Motl
    monitors.trace(ctx, [
        ("cryomap.rotate", f_rot, {"rotation_transposed": "rot_matrix[0:3, 0:3] = rotation.as_matrix().T", "rotation_plain": "rot_matrix[0:3, 0:3] = rotation.as_matrix()\n",
                                   "euler_angles": "srot.from_euler(coord_space", "neither_given": "raise ValueError(\"Either rotation_angles"}),
        ("cryomap.get_start_end_indices", f_idx),
        ("cryomap.extract_subvolume", f_ext, {"enforce_shape": "subvolume = np.full(volume.shape", "window": "subvolume = np.full(subvolume_shape"}),
        ("cryomap.crop", cryomap.crop, {"default_centre": "crop_coord = cryomask.get_correct_format(input_map.shape) // 2"}),
        ("cryomap.place_object", f_plc, {"template_list": "object_map = rotate(input_object[i]", "single_template": "object_map = rotate(input_object, ",
                                         "volume_given": "object_container = read(volume)", "volume_shape": "object_container = np.zeros(volume_shape)"}),
        ("cryomap.symmetrize_volume", f_sym, {"string_order": "nfold = int(re.findall", "non_string_order": "elif isinstance(symmetry, (int, float))", "refusal": "raise ValueError(\"The symmetry"}),
        ("Motl.get_rotations", Mo.get_rotations), ("Motl.get_coordinates", Mo.get_coordinates),
        ("Motl.shift_positions", Mo.shift_positions, {"inplace": "self.df = self.df.apply(shift_coords", "copy": "new_motl = copy.deepcopy(self)"})])


# =====================================================================================================
# generators
# =====================================================================================================
def cube_angles(rng, M):
    """zxz angles (phi,theta,psi) of the cube rotation M in one of several equivalent spellings"""
    phi, theta, psi = [float(v) for v in so3.to_zxz(np.asarray(M, dtype=float))]
    kind = str(rng.choice(["plain", "plain", "plus360", "gimbal_split", "negative_theta"]))
    a = [phi, theta, psi]
    if kind == "plus360":
        a = [phi + 360.0 * int(rng.integers(-2, 3)), theta + 360.0 * int(rng.integers(-1, 2)), psi + 360.0 * int(rng.integers(-2, 3))]
    elif kind == "gimbal_split" and (abs(theta) < 1e-9 or abs(theta - 180.0) < 1e-9):
        s = float(rng.choice([30.0, 45.0, 90.0, -120.0, float(np.round(rng.uniform(-180, 180), 3))]))
        a = [s, theta, psi - s] if abs(theta) < 1e-9 else [s, theta, psi + s]
    elif kind == "negative_theta":
        a = [phi + 180.0, -theta, psi + 180.0]          # Rz(psi+180) Rx(-theta) Rz(phi+180) = Rz(psi) Rx(theta) Rz(phi)
    if np.abs(so3.zxz(*a) - np.asarray(M, dtype=float)).max() > 1e-12:
        a, kind = [phi, theta, psi], "plain"
    return [float(v) for v in a], kind


LAYOUTS = ["C", "F", "transposed", "swapped12", "negative_stride", "every_other", "readonly"]


def relayout(a, kind):
    """the same values and shape in another memory layout (round 6: what a value-oriented generator does not vary)"""
    a = np.asarray(a)
    if kind == "F":
        return np.asfortranarray(a)
    if kind == "transposed":
        return np.ascontiguousarray(a.transpose(2, 1, 0)).transpose(2, 1, 0)
    if kind == "swapped12":
        return np.swapaxes(np.ascontiguousarray(np.swapaxes(a, 1, 2)), 1, 2)
    if kind == "negative_stride":
        return np.ascontiguousarray(a[::-1, :, ::-1])[::-1, :, ::-1]
    if kind == "every_other":
        big = np.zeros((2 * a.shape[0],) + a.shape[1:], dtype=a.dtype)
        big[::2] = a
        return big[::2]
    b = np.array(a, copy=True)
    if kind == "readonly":
        b.flags.writeable = False
    return b


PATH_NAMES = ["ribosome.em", "frame.em", "tomo [1] x.mrc", "d\u00fcr [2]/\u043a\u0430\u0440\u0442\u0430 *?.mrc", "sub dir/mem.rec", "stack.st", "m.mrc.2", "./rel/../rel/box.em"]


def write_map_file(ctx, name, arr, tag):
    """independent writer (struct); float32 / int8 on disk; returns a path relative to the scratch cwd for some names"""
    from vmon.oracles import files
    rel = os.path.join("c14_%s" % tag, name)
    full = os.path.join(ctx.scratch, rel)
    os.makedirs(os.path.dirname(os.path.normpath(full)), exist_ok=True)
    if name.endswith(".em"):
        files.write_em_raw(full, arr, code=1 if arr.dtype == np.int8 else 5)
    else:
        files.write_mrc_raw(full, arr, mode=0 if arr.dtype == np.int8 else 2)
    return rel if len(tag) % 2 else full        # the harness runs with cwd = scratch: relative and absolute spellings


def noise_volume(rng, shape):
    dt = str(rng.choice(["f8", "f8", "f4", "i2", "i1", "u1", "b1", "i8"]))
    if dt in ("i2", "i8"):
        return rng.integers(-100, 101, size=shape).astype(dt)
    if dt in ("i1", "u1", "b1"):
        return (rng.random(shape) < 0.4).astype({"i1": np.int8, "u1": np.uint8, "b1": bool}[dt]) * (1 if dt == "b1" else np.array(3, dtype={"i1": np.int8, "u1": np.uint8}.get(dt)))
    return (rng.normal(size=shape) * float(rng.choice([1.0, 1.0, 1e3, 1e-3])) + float(rng.choice([0.0, 5.0]))).astype(dt)


def gen_cube(rng, cls, big):
    if cls == "cube_odd":
        N = int(rng.choice([5, 7, 9, 11, 13, 15, 17] + ([21, 31, 33, 63, 65] if big else [31, 33])))      # incl. 2**k +- 1
        shape = (N, N, N)
    elif cls == "cube_even":
        N = int(rng.choice([4, 6, 8, 10, 12, 16] + ([20, 32, 64] if big else [32])))                    # incl. 2**k
        shape = (N, N, N)
    else:
        while True:
            shape = tuple(int(v) for v in rng.integers(4, 15 if not big else 22, 3))
            if len(set(shape)) > 1:
                break
    vol = noise_volume(rng, shape)
    calls = []
    for k in rng.choice(np.arange(1, 24), 3, replace=False):
        M = CUBES[int(k)]
        style = str(rng.choice(["angles", "angles", "angles_rad", "rotation_T"]))
        ang, akind = cube_angles(rng, M)
        if style == "angles_rad" and not any(a < 0 or a >= 360.0 for a in ang):
            # radians are always given with a negative angle and one beyond 2 pi (same orientation)
            ang, akind = [ang[0] - 360.0, ang[1], ang[2] + 720.0], akind + "+wide_rad"
        calls.append({"cube": int(k), "style": style, "angles": ang, "alias": akind, "order": int(rng.choice([3, 3, 3, 1])),
                      "as": str(rng.choice(["list", "array", "tuple"]))})
    layout = str(rng.choice(LAYOUTS))
    return {"vol": vol, "calls": calls, "layout": layout, "np_flags": bool(rng.random() < 0.4),
            "mutate": "none" if (layout == "readonly" or vol.dtype.kind in "bu") else str(rng.choice(["none", "negate", "flip_and_poke", "refill"])),
            "summary": {"box": list(shape), "dtype": str(vol.dtype), "calls": [{k: c[k] for k in ("cube", "style", "alias", "order")} for c in calls],
                        "angles0": calls[0]["angles"], "v0": float(vol.reshape(-1)[0])}}


def draw_typed(rng):
    """an integer / bool rendering of a smooth map: binary mask or scaled-and-rounded values"""
    return [("mask", "u1", 1), ("mask", "i1", 1), ("mask", "b1", 1), ("scaled", "i2", 1000), ("scaled", "i1", 20), ("scaled", "u1", 7)][int(rng.integers(0, 6))]


def typed_map(vol, typed):
    kind, dt, scale = typed
    if kind == "mask":
        return (vol > 0.4 * vol.max()).astype(TDT[dt])
    return np.round(vol / vol.max() * scale).astype(TDT[dt])


def gen_blob(rng, cls, big):
    hi = 37 if not big else 49
    if rng.random() < 0.5:
        N = int(rng.integers(28, hi))
        shape = (N, N, N)
    else:
        shape = tuple(int(v) for v in rng.integers(28, hi, 3))
    B = O.random_blob(rng, shape)
    kind = {"blob_random": "random", "blob_gimbal": str(rng.choice(["gimbal", "near_gimbal"])), "blob_wide": "wide"}[cls]
    ang = [float(v) for v in so3.random_euler(rng, 1, kind)[0]]
    return {"shape": shape, "blob": B, "angles": ang, "style": str(rng.choice(["angles", "rotation_T", "angles_rad"])), "inv_style": str(rng.choice(["angles", "rotation_T", "angles_rad"])),
            "typed": draw_typed(rng) if rng.random() < 0.6 else None, "layout": str(rng.choice(LAYOUTS)), "np_flags": bool(rng.random() < 0.3),
            "summary": {"box": list(shape), "angles": np.round(ang, 6).tolist(), "kind": kind, "blob": B.summary()}}      # styles are drawn after: not part of the digest


def gen_window(rng, cls, V):
    if cls == "extract_inside":
        N = [int(2 * rng.integers(1, max(2, v // 2 + 1))) for v in V]          # even, <= V
    else:
        N = [int(2 * rng.integers(1, 9)) for _ in V]
        r = rng.random()
        if r < 0.2:
            k = int(rng.integers(0, 3))
            N[k] = V[k] + (2 if V[k] % 2 == 0 else 1) + int(2 * rng.integers(0, 3))     # window larger than the volume
        elif r < 0.3:
            N[int(rng.integers(0, 3))] = int(rng.choice([32, 64]))                        # 2**k window edge
    start = []
    for k in range(3):
        lo_in, hi_in = 0, V[k] - N[k]
        start.append(int(rng.integers(lo_in, hi_in + 1)) if hi_in >= lo_in else int(rng.integers(V[k] - N[k], 1)))
    if cls == "extract_partial":
        axes = [k for k in range(3) if rng.random() < 0.5] or [int(rng.integers(0, 3))]
        for k in axes:
            if rng.random() < 0.5:
                start[k] = int(rng.integers(-N[k] + 1, 0))              # crosses the lower face
            else:
                start[k] = int(rng.integers(max(V[k] - N[k] + 1, -N[k] + 1), V[k]))      # crosses the upper face
    elif cls == "extract_outside":
        axes = [k for k in range(3) if rng.random() < 0.4] or [int(rng.integers(0, 3))]
        for k in axes:
            touching = rng.random() < 0.4
            if rng.random() < 0.5:
                start[k] = -N[k] if touching else -N[k] - int(rng.integers(1, 30))
            else:
                start[k] = V[k] if touching else V[k] + int(rng.integers(1, 30))
    far = [False] * 3
    if cls == "extract_outside" and rng.random() < 0.3:
        # representability boundaries: a window centre just above 1e5, at 2**24, 2**31, near 2**53 (either sign)
        k = int(rng.integers(0, 3))
        start[k] = int(rng.choice([100001, 2 ** 24, 2 ** 24 + 1, 2 ** 31, -2 ** 31 - 1, 2 ** 53 - 128, -(2 ** 53 - 128), -100002]))
        far[k] = True
    frac_kind = str(rng.choice(["integer", "half", "quarter", "generic", "near_one", "ulp_below", "tiny_below", "tiny_above"]))
    frac = {"integer": [0.0] * 3, "half": [0.5] * 3, "quarter": [0.25, 0.75, 0.25]}.get(frac_kind)
    if frac is None:
        frac = [float(v) for v in {"generic": rng.uniform(1e-3, 1 - 1e-3, 3), "near_one": 1.0 - rng.uniform(1e-7, 1e-4, 3),
                                   "ulp_below": np.zeros(3), "tiny_below": 1.0 - rng.uniform(1e-9, 5e-7, 3), "tiny_above": rng.uniform(1e-9, 5e-7, 3)}[frac_kind]]
    coord = []
    for k in range(3):
        if far[k]:
            coord.append(start[k] + N[k] / 2.0 + (0.0 if abs(start[k]) > 2 ** 40 else float(rng.choice([0.0, 0.5]))))
        elif frac_kind == "ulp_below":
            # one ulp below the next voxel; only where c - N/2 is exact in floating point (window start >= 0), so that the
            # window is the same however an implementation orders the arithmetic; elsewhere 1e-7..1e-4 below
            coord.append(float(np.nextafter(start[k] + N[k] / 2.0 + 1.0, -np.inf)) if start[k] >= 0 else start[k] + N[k] / 2.0 + 1.0 - float(rng.uniform(1e-7, 1e-4)))
        else:
            coord.append(start[k] + N[k] / 2.0 + frac[k])
    assert [math.floor(coord[k] - N[k] / 2.0) for k in range(3)] == start
    return {"N": N, "coord": coord, "start": start, "frac": frac_kind,
            "coord_as": str(rng.choice(["array", "list", "tuple", "int_array" if (frac_kind == "integer" and not any(far)) else "array"])),
            "shape_as": str(rng.choice(["tuple", "list", "array"])), "enforce_too": bool(rng.random() < 0.1), "crop_too": bool(rng.random() < 0.2)}


def gen_extract(rng, cls, big):
    V = [int(v) for v in rng.integers(6, 25 if not big else 49, 3)]
    vol = noise_volume(rng, tuple(V))
    wins = [gen_window(rng, cls, V) for _ in range(4)]
    # one float64 centre array REUSED for 2..3 successive calls: same / another volume, same / other even window sizes
    V2 = [int(v) for v in rng.integers(6, 25 if not big else 49, 3)]
    vol2 = noise_volume(rng, tuple(V2))
    first = gen_window(rng, cls, V)
    seq = [{"N": first["N"], "vol": 0}]
    for _ in range(int(rng.integers(1, 3))):
        same_size = rng.random() < 0.5
        delta = None
        if rng.random() < 0.6:                               # the caller moves the centre IN PLACE before the next call
            delta = [float(v) for v in rng.choice([-3.0, -1.0, -0.5, 0.0, 0.5, 1.0, 2.0, 7.0], 3)]
        seq.append({"N": list(first["N"]) if same_size else [int(2 * rng.integers(1, 9)) for _ in range(3)], "vol": int(rng.integers(0, 2)), "delta": delta})
    reuse = {"coord": first["coord"], "start": first["start"], "frac": first["frac"], "seq": seq}
    if rng.random() < 0.1:
        vol = np.full(tuple(V), float(rng.choice([0.0, 3.0, -2.5])))           # a single distinct value (also: all zero)
    return {"vol": vol, "vol2": vol2, "wins": wins, "reuse": reuse, "layout": str(rng.choice(LAYOUTS)), "chain_cube": int(rng.integers(1, 24)),
            "summary": {"volume": V, "dtype": str(vol.dtype), "windows": [{"window": w["N"], "start": w["start"], "frac": w["frac"]} for w in wins],
                        "coord0": np.round(wins[0]["coord"], 6).tolist(), "v0": float(vol.reshape(-1)[0]),
                        "reuse": {"coord": np.round(reuse["coord"], 6).tolist(), "calls": [{"window": q["N"], "volume": q["vol"], "moved_by": q.get("delta")} for q in seq], "volume2": V2}}}


def binary_template(rng, shape):
    """asymmetric binary template, zero on the faces; half of them with exactly 2**k - 1, 2**k or 2**k + 1 voxels set"""
    for _ in range(50):
        T = np.zeros(shape)
        inner = tuple(slice(1, n - 1) for n in shape)
        T[inner] = (rng.random([n - 2 for n in shape]) < rng.uniform(0.1, 0.35)).astype(float)
        c = O.centre(shape)
        T[c[0], c[1], c[2]] = 1.0
        T[c[0] + 1, c[1], c[2]] = 1.0
        n_in = int(np.prod([n - 2 for n in shape]))
        targets = [t for t in (15, 16, 17, 31, 32, 33, 63, 64, 65, 127, 128, 129, 255, 256, 257) if 4 <= t <= n_in // 2]
        if targets and rng.random() < 0.5:
            want = int(rng.choice(targets))
            sub = T[inner]                                  # a view: edits go into T
            free = np.argwhere(sub == 0)
            setv = np.array([v for v in np.argwhere(sub == 1) if not (tuple(v + 1) in (tuple(c), (c[0] + 1, c[1], c[2])))])
            have = int(sub.sum())
            if have < want:
                for v in free[rng.permutation(len(free))[:want - have]]:
                    sub[tuple(v)] = 1.0
            elif have > want and len(setv) >= have - want:
                for v in setv[rng.permutation(len(setv))[:have - want]]:
                    sub[tuple(v)] = 0.0
        if T.sum() >= 4 and all(not np.array_equal(O.permuted(T, M)[0], T) for M in CUBES[1:]):
            return T
    raise RuntimeError("no asymmetric template drawn")


def split_position(rng, P):
    """complete 1-based position -> (x, shift) with x + shift reproducing a position in the same voxel"""
    x, sh = np.zeros(3), np.zeros(3)
    for k in range(3):
        frac = P[k] - math.floor(P[k])
        dyadic = (frac * 8.0) == round(frac * 8.0)
        if dyadic:
            s = float(rng.choice([0.0, 0.5, -0.5, 0.125, -1.25, 2.0, -3.0]))
        else:
            s = float(rng.choice([0.0, float(rng.uniform(-3, 3))]))
        x[k], sh[k] = P[k] - s, s
        if math.floor(x[k] + sh[k]) != math.floor(P[k]):        # one-ulp slip across an integer: keep the particle unshifted
            x[k], sh[k] = P[k], 0.0
    return x, sh


def place_positions(rng, n, V, shapes, mode):
    """1-based complete positions: window start s per axis (inside / crossing a face / outside), p0 = s + N/2 + frac"""
    P = np.zeros((n, 3))
    kinds = []
    base = None
    for i in range(n):
        N = shapes[i]
        kind = "inside"
        if mode != "link":
            r = rng.random()
            kind = "inside" if r < 0.7 else ("partial" if r < 0.9 else "outside")
        if mode == "overlap" and base is not None:
            s = [int(base[k] + rng.integers(-N[k] // 2, N[k] // 2 + 1)) for k in range(3)]
            kind = "overlap"
        else:
            s = [int(rng.integers(0, max(V[k] - N[k], 0) + 1)) for k in range(3)]
            if kind in ("partial", "outside"):
                k = int(rng.integers(0, 3))
                if kind == "partial":
                    s[k] = int(rng.integers(-N[k] + 1, 0)) if rng.random() < 0.5 else int(rng.integers(max(V[k] - N[k] + 1, 1), V[k]))
                elif rng.random() < 0.4:
                    s[k] = int(rng.choice([100001, -100002, 2 ** 24, 2 ** 31, -2 ** 31 - 1, 2 ** 53 - 128]))      # far outside, at representability boundaries
                else:
                    s[k] = int(-N[k] - rng.integers(0, 6)) if rng.random() < 0.5 else int(V[k] + rng.integers(0, 6))
            if base is None:
                base = s
        fk = str(rng.choice(["integer", "half", "eighths", "generic", "ulp_below", "tiny_below", "tiny_above"]))
        for k in range(3):
            frac = {"integer": 0.0, "half": 0.5, "eighths": float(rng.integers(0, 8)) / 8.0}.get(fk)
            if abs(s[k]) > 2 ** 20:
                frac = 0.0 if abs(s[k]) > 2 ** 40 else float(rng.choice([0.0, 0.5]))
            elif fk == "ulp_below":
                # complete position one ulp below the next voxel (only where p - 1 - N/2 is exact: window start >= 0)
                P[i, k] = float(np.nextafter(s[k] + N[k] / 2.0 + 2.0, -np.inf)) if s[k] >= 0 else s[k] + N[k] / 2.0 + 2.0 - float(rng.uniform(1e-7, 1e-4))
                continue
            elif fk == "tiny_below":
                frac = 1.0 - float(rng.uniform(1e-9, 5e-7))
            elif fk == "tiny_above":
                frac = float(rng.uniform(1e-9, 5e-7))
            elif frac is None:
                frac = float(rng.uniform(1e-3, 1 - 1e-3))
            P[i, k] = s[k] + N[k] / 2.0 + frac + 1.0
        kinds.append(kind)
    return P, kinds


def colour_values(rng, n, feature):
    if feature in ("score", "geom1", "geom4"):
        v = rng.permutation(np.arange(1, 200))[:n] / 8.0
    else:
        v = rng.permutation(np.arange(1, 60))[:n].astype(float)
    v = v.astype(float)
    if rng.random() < 0.3:
        # adjacent integers just above 1e5 (np.isclose would merge them), 2**24 (+1), 2**31, 2**53, and tiny / huge magnitudes
        pool = np.array([100001.0, 100002.0, 100003.0, 2.0 ** 24, 2.0 ** 24 + 1, 2.0 ** 24 + 2, 2.0 ** 31, 2.0 ** 31 + 1, 2.0 ** 53, 2.0 ** 53 - 1,
                         1e-30, 3e-06, 1e+16, 0.5])
        k = min(n, int(rng.integers(2, 7)))
        v[rng.choice(n, k, replace=False)] = rng.choice(pool, k, replace=False)
    r = rng.random()
    if r < 0.1 and n > 1:
        v[int(rng.integers(0, n))] = v[int(rng.integers(0, n))]      # a repeated colour
    elif r < 0.18:
        v[int(rng.integers(0, n))] = 0.0                               # colour zero
    return v


def gen_place(rng, cls, big, force=None):
    force = force or {}
    smooth = cls == "place_random" or (cls == "place_single" and rng.random() < 0.5)
    n = {"place_single": 1}.get(cls)
    if n is None:
        n = int(rng.integers(2, 21)) if cls != "place_random" else int(rng.integers(1, 11))
    if cls == "place_overlap":
        n = int(rng.integers(3, 21))
    if cls in ("place_cube", "place_overlap", "place_filtered") and rng.random() < 0.5:
        n = int(rng.choice([20, 20, 19, 17, 16, 15, 9, 8, 7]))       # the largest list of the quantifier and 2**k - 1, 2**k, 2**k + 1
    V = [int(v) for v in rng.integers(24, 45 if not big else 65, 3)]
    separated = smooth and rng.random() < 0.6
    if separated:
        V = [int(v) for v in rng.integers(56, 81, 3)]
        n = min(n, 8)                                          # 2 x 2 x 2 cells at least
    if "n" in force:
        n = force["n"]
    per_particle = bool(rng.random() < 0.35) and n > 1
    per_particle = force.get("per_particle", per_particle)
    ntempl = n if per_particle else 1
    templ, blobs, tshapes = [], [], []
    for _ in range(ntempl):
        if smooth:
            N0 = int(rng.choice([18, 20, 22, 24]))
            shp = (N0, N0, N0) if rng.random() < 0.6 else (N0, N0 + 2, N0 - 2)
            B = O.random_blob(rng, shp, 1, 3, 2.0, 2.6, reach=3.0)
            blobs.append(B)
            templ.append(B.render(shp))
        else:
            shp = tuple(int(2 * rng.integers(3, 7)) for _ in range(3)) if rng.random() < 0.5 else (int(2 * rng.integers(3, 7)),) * 3
            templ.append(binary_template(rng, shp))
        tshapes.append(tuple(shp))
    shapes = [tshapes[i if per_particle else 0] for i in range(n)]
    mode = "overlap" if cls == "place_overlap" else "free"
    P, kinds = place_positions(rng, n, V, shapes, mode)
    if separated:
        # one particle per lattice cell of side 28 (>= every template box): stamps cannot touch, centroid checks apply
        cells = [(a, b, c) for a in range(V[0] // 28) for b in range(V[1] // 28) for c in range(V[2] // 28)]
        pick = rng.choice(len(cells), size=n, replace=False)
        for i in range(n):
            for k in range(3):
                s0 = cells[pick[i]][k] * 28 + int(rng.integers(0, 28 - shapes[i][k] + 1))
                P[i, k] = s0 + shapes[i][k] / 2.0 + float(rng.choice([0.0, 0.5, float(rng.uniform(1e-3, 1 - 1e-3))])) + 1.0
        kinds = ["inside"] * n
    dup = None
    if cls == "place_overlap" and rng.random() < 0.6:
        dup = int(rng.integers(1, n))                          # two particles at EXACTLY the same position (different colour / pose)
        P[dup] = P[dup - 1]
    df = gens.motl_table(rng, n, tomos=1, ori="mixed")
    if smooth:
        ang = so3.random_euler(rng, n, "mixed")
        akinds = ["random"] * n
    else:
        ang, akinds = [], []
        for i in range(n):
            a, k = cube_angles(rng, CUBES[int(rng.integers(0, 24))])
            ang.append(a)
            akinds.append(k)
        ang = np.array(ang)
    df["phi"], df["theta"], df["psi"] = ang[:, 0], ang[:, 1], ang[:, 2]
    xs, shs = zip(*[split_position(rng, P[i]) for i in range(n)])
    xs, shs = np.array(xs), np.array(shs)
    if dup is not None:
        xs[dup], shs[dup] = xs[dup - 1], shs[dup - 1]
    df[["x", "y", "z"]] = xs
    df[["shift_x", "shift_y", "shift_z"]] = shs
    feature = str(rng.choice(["default", "object_id", "class", "geom1", "score", "subtomo_id", "geom4"]))
    feature = force.get("feature", feature)
    fcol = "object_id" if feature == "default" else feature
    df[fcol] = colour_values(rng, n, fcol)
    container = str(rng.choice(["shape_tuple", "shape_list", "volume_zeros", "volume_bg64", "volume_bg32", "volume_bg64_F", "volume_bg64_transposed",
                                "volume_bg32_F", "volume_bg64_every_other", "volume_bg64_negative_stride", "volume_bg32_path", "volume_bg32_path"]))
    container = force.get("container", container)
    bg = None
    if container.startswith("volume"):
        bg = np.zeros(V, dtype=np.float32 if "32" in container else np.float64)
        if "bg" in container:
            bg[...] = rng.integers(-3, 0, size=V)          # background distinct from every colour (colours >= 0)
    # colour 0 is a colour like any other: planted on LATER particles that overlap earlier stamps and on pre-filled containers
    zero_planted = 0
    if (cls == "place_overlap" or (bg is not None and "bg" in container)) and rng.random() < 0.7:
        cand = np.arange(1, n) if (n > 1 and cls == "place_overlap") else np.arange(0, n)
        kz = min(len(cand), int(rng.integers(1, 4)))
        idx0 = rng.choice(cand, kz, replace=False)
        df.loc[df.index[idx0], fcol] = 0.0
        zero_planted = kz
    twin = None
    if dup is not None and rng.random() < 0.4:
        twin = dup                                               # an exact duplicate row (pose and colour too)
        df.iloc[dup] = df.iloc[dup - 1]
    if bg is not None and "bg" in container and rng.random() < 0.12:
        df[fcol] = 0.0                                           # a colouring column that is 0 everywhere
        zero_planted = n
    history = bool((not smooth) and rng.random() < 0.5)          # second call after in-place edits of the caller's table
    # template forms: dtype / memory layout / file path (binary templates), integer-typed position and angle columns
    tdtype = "f8" if smooth else str(rng.choice(["f8", "f8", "f4", "i1", "u1", "b1", "i2"]))
    tlayout = str(rng.choice(LAYOUTS))
    tpath = bool((not smooth) and (not per_particle) and rng.random() < 0.25)
    path_name = str(rng.choice(PATH_NAMES))
    tpath_name = str(rng.choice(PATH_NAMES))
    int_columns = bool((not smooth) and rng.random() < 0.3)
    if (not smooth) and rng.random() < 0.06:
        templ = [np.zeros_like(t) for t in templ]                # an all-zero template: nothing may be stamped
    mask_dtype = None
    if smooth and rng.random() < 0.45:
        # binary masks of the blobs in an integer / bool dtype (random poses): judged against the same values as float64 (place_dtype)
        mask_dtype = str(rng.choice(["i1", "u1", "b1"]))
        templ = [(t > 0.35 * t.max()).astype({"i1": np.int8, "u1": np.uint8, "b1": bool}[mask_dtype]) for t in templ]
    variant = None
    if cls == "place_filtered":
        variant = str(rng.choice(["remove_feature", "remove_feature", "permuted_index", "offset_index", "repeated_index", "repeated_index", "reversed_index"]))
        df["geom2"] = rng.integers(0, 5, n).astype(float)
        if variant == "remove_feature":
            k = int(rng.integers(1, 4))
            doomed = gens.motl_table(rng, k, tomos=1)
            doomed["geom2"] = 99.0
            where = sorted(set([0] + [int(v) for v in rng.integers(0, n + 1, k - 1)]))
            parts, j = [], 0
            for pos in range(n + 1):
                for w in where:
                    if w == pos and j < k:
                        parts.append(doomed.iloc[[j]])
                        j += 1
                if pos < n:
                    parts.append(df.iloc[[pos]])
            df_full = pd.concat(parts, ignore_index=True)
        else:
            df_full = df.copy()
            if variant == "repeated_index" and n > 1:
                # what pd.concat of two lists without ignore_index leaves behind: 0..k-1, 0..n-k-1
                k = int(rng.integers(1, n))
                df_full.index = list(range(k)) + list(range(n - k))
            elif variant == "reversed_index" and n > 1:
                df_full.index = np.arange(n)[::-1]
            elif variant == "permuted_index" and n > 1:
                p = rng.permutation(n)
                while np.array_equal(p, np.arange(n)):
                    p = rng.permutation(n)
                df_full.index = p
            else:
                variant = "offset_index"
                df_full.index = np.arange(n) + int(rng.integers(1, 5))
        df = df_full
    return {"V": V, "templ": templ, "blobs": blobs, "per_particle": per_particle, "df": df, "n": n, "feature": feature, "container": container, "bg": bg,
            "variant": variant, "smooth": smooth, "kinds": kinds, "history": history, "fcol": fcol, "tdtype": tdtype, "tlayout": tlayout, "tpath": tpath,
            "path_name": path_name, "tpath_name": tpath_name, "int_columns": int_columns, "mask_dtype": mask_dtype,
            "summary": {"template_form": [tdtype, tlayout, tpath, mask_dtype], "int_columns": int_columns, "n": n, "zero_coloured": zero_planted, "same_position_pair": dup, "duplicate_row": twin, "history": history, "volume": V, "templates": [list(s) for s in tshapes[:3]], "per_particle": per_particle, "feature": feature,
                        "container": container, "variant": variant, "position_kinds": sorted(set(kinds)), "angle_kinds": sorted(set(akinds)),
                        "P0": np.round(P[0], 4).tolist(), "angles0": np.round(ang[0], 4).tolist()}}


def gen_sym(rng, cls, big):
    n = {"sym_exact": int(rng.choice([2, 4])), "sym_nondivisor": int(rng.choice([7, 11]))}.get(cls) or int(rng.integers(2, 13))
    lo, hi = (24, 33) if not big else (24, 45)
    if rng.random() < 0.5:
        N = int(rng.integers(lo, hi))
        shape = (N, N, N)
    else:
        shape = tuple(int(v) for v in rng.integers(lo, hi, 3))
    content = "blob"
    B = O.random_blob(rng, shape, cyl=True)
    if cls == "sym_exact" and rng.random() < 0.5:
        content = "noise"
        shape = tuple(int(v) for v in rng.integers(6, 17, 3)) if rng.random() < 0.6 else (int(rng.integers(6, 17)),) * 3
    noise = noise_volume(rng, shape) if content == "noise" else None
    spelling = str(rng.choice(["int", "int", "C", "c", "digits", "float"]))
    return {"n": n, "shape": shape, "blob": B, "noise": noise, "content": content, "spelling": spelling, "typed": draw_typed(rng) if rng.random() < 0.45 else None,
            "layout": str(rng.choice(LAYOUTS)),
            "summary": {"n": n, "box": list(shape), "content": content, "spelling": spelling, "blob": B.summary() if content == "blob" else None,
                        "v0": float(noise.reshape(-1)[0]) if noise is not None else None}}


def gen_link(rng, cls, big):
    n = int(rng.integers(1, 7))
    N = int(2 * rng.integers(3, 8))
    V = [int(v) for v in rng.integers(40, 70, 3)]
    v = np.zeros(3, dtype=int)
    while not v.any():
        v = rng.integers(-N // 2 + 1, N // 2 - 1, 3)                    # source voxel c+v stays one voxel away from the faces
    df = gens.motl_table(rng, n, tomos=1)
    ang, ks = [], []
    for i in range(n):
        k = int(rng.integers(0, 24))
        a, _ = cube_angles(rng, CUBES[k])
        ang.append(a)
        ks.append(k)
    ang = np.array(ang)
    df["phi"], df["theta"], df["psi"] = ang[:, 0], ang[:, 1], ang[:, 2]
    # integer complete positions, well separated (distinct lattice cells of side 2N) and far enough from the faces
    cells = [(a, b, c) for a in range(V[0] // (2 * N)) for b in range(V[1] // (2 * N)) for c in range(V[2] // (2 * N))]
    pick = rng.choice(len(cells), size=min(n, len(cells)), replace=False)
    df = df.iloc[:len(pick)].copy()
    P = np.array([[cells[j][k] * 2 * N + N + 1 for k in range(3)] for j in pick], dtype=float)
    sh = rng.choice([0.0, 0.5, -0.5, 1.0, -2.0], size=P.shape)
    df[["x", "y", "z"]] = P - sh
    df[["shift_x", "shift_y", "shift_z"]] = sh
    df["object_id"] = rng.permutation(np.arange(1, 40))[:len(df)].astype(float)
    return {"df": df.reset_index(drop=True), "N": N, "V": V, "v": [int(x) for x in v], "cubes": ks[:len(df)], "inplace": bool(rng.random() < 0.5),
            "summary": {"n": len(df), "template": N, "volume": V, "offset": [int(x) for x in v], "cubes": ks[:len(df)], "angles0": np.round(ang[0], 4).tolist(),
                        "P0": P[0].tolist()}}


def gen(ctx, i, cls):
    rng = ctx.rng(i)
    big = ctx.tier == "thorough"
    if cls.startswith("cube_"):
        case = gen_cube(rng, cls, big)
    elif cls.startswith("blob_"):
        case = gen_blob(rng, cls, big)
    elif cls.startswith("extract_"):
        case = gen_extract(rng, cls, big)
    elif cls.startswith("place_"):
        case = gen_place(rng, cls, big)
    elif cls.startswith("sym_"):
        case = gen_sym(rng, cls, big)
    else:
        case = gen_link(rng, cls, big)
    case["i"], case["cls"] = i, cls
    case["summary"]["class"] = cls
    return case


def nontrivial(case):
    cls = case["cls"]
    if cls.startswith("cube_"):
        return bool(np.ptp(case["vol"]) > 0)                     # three distinct non-identity cube rotations on a non-constant map
    if cls.startswith("blob_"):
        R = so3.zxz(*case["angles"])
        return bool(so3.angle_deg(R) > 1.0)
    if cls.startswith("extract_"):
        return bool(np.ptp(case["vol"]) > 0)
    if cls.startswith("place_"):
        return any(k in ("inside", "partial", "overlap") for k in case["kinds"])
    if cls.startswith("sym_"):
        return case["n"] >= 2
    return len(case["df"]) >= 1


# =====================================================================================================
# drivers
# =====================================================================================================
def _as(kind, seq):
    return {"list": list(seq), "tuple": tuple(seq), "array": np.array(seq), "int_array": np.array(seq).astype(int)}[kind]


def real_rotate(ctx, label, vol, R=None, angles=None, style="angles", order=3, seq="list", np_flags=False):
    """np_flags: flags and numbers given as numpy scalars (np.True_, np.False_, np.int64) instead of Python ones"""
    from scipy.spatial.transform import Rotation
    kw = {} if (order == 3 and not np_flags) else {"spline_order": np.int64(order) if np_flags else order}
    if style == "rotation_T":
        if R is None:
            R = so3.zxz(*angles)
        return ctx.call(label, ctx.cmap.rotate, vol, rotation=Rotation.from_matrix(np.asarray(R, dtype=float)), transpose_rotation=np.True_ if np_flags else True, **kw)
    if style == "angles_rad":
        return ctx.call(label, ctx.cmap.rotate, vol, rotation_angles=_as(seq, [math.radians(a) for a in angles]), degrees=np.False_ if np_flags else False, **kw)
    if np_flags:
        kw["degrees"] = np.True_
    return ctx.call(label, ctx.cmap.rotate, vol, rotation_angles=_as(seq, angles), **kw)


def run_cube(ctx, case):
    vol = relayout(case["vol"], case["layout"])
    for c in case["calls"]:
        M = np.asarray(CUBES[c["cube"]], dtype=float)
        real_rotate(ctx, "rotate", vol, R=M, angles=c["angles"], style=c["style"], order=c["order"], seq=c["as"], np_flags=case["np_flags"])     # judged by rotate_cube
    if case["mutate"] != "none":
        # history: the caller's map is modified IN PLACE and rotated again (every call is judged on the values the array holds then)
        if case["mutate"] == "negate":
            np.negative(vol, out=vol)
        elif case["mutate"] == "flip_and_poke":
            vol[...] = vol[::-1, :, ::-1].copy()
            vol[tuple(O.centre(vol.shape))] += 7 if vol.dtype.kind != "b" else 0
        else:
            vol[...] = np.arange(vol.size).reshape(vol.shape) % 97
        for c in case["calls"][:2]:
            real_rotate(ctx, "rotate", vol, R=np.asarray(CUBES[c["cube"]], dtype=float), angles=c["angles"], style=c["style"], order=c["order"], seq=c["as"])
    if case["i"] % 5 == 0:
        from scipy.spatial.transform import Rotation
        ctx.cmap.rotate(vol, rotation=Rotation.from_matrix(np.asarray(CUBES[case["calls"][0]["cube"]], dtype=float)))   # inverse convention: counted, not judged


def run_blob(ctx, case):
    B, shape, ang = case["blob"], case["shape"], case["angles"]
    R = so3.zxz(*ang)
    vol = relayout(B.render(shape), case["layout"])
    peak = float(vol.max())
    if case["typed"] is not None:
        # integer / bool typed map, generic rotation: the result must be the one obtained from the same values as float64
        vt = relayout(typed_map(np.asarray(vol), case["typed"]), case["layout"])
        ok1, a = real_rotate(ctx, "rotate", vt, R=R, angles=ang, style=case["style"], np_flags=case["np_flags"])
        ok2, b = real_rotate(ctx, "rotate", np.array(vt, dtype=np.float64), R=R, angles=ang, style=case["style"])
        if ok1 and ok2 and isinstance(a, np.ndarray) and isinstance(b, np.ndarray) and a.shape == b.shape:
            d = np.abs(a.astype(float) - b)
            j = np.unravel_index(int(np.argmax(d)), d.shape)
            mx = float(np.abs(vt.astype(float)).max())
            ctx.check("rotate_dtype", d.max() <= TOL_ANALYTIC * mx,
                      {"what": "rotating a %s map differs from rotating the same values as float64" % vt.dtype, "kind": case["typed"][0], "angles": ang, "call": case["style"],
                       "max_abs_diff_over_max": float(d.max() / mx), "voxel": list(map(int, j)), "typed_result": float(a[j]), "float64_result": float(b[j]), "result_dtype": str(a.dtype)})
    ok, out = real_rotate(ctx, "rotate", vol, R=R, angles=ang, style=case["style"], np_flags=case["np_flags"])
    if not ok:
        return
    if not isinstance(out, np.ndarray) or out.shape != vol.shape:
        ctx.check("rotate_analytic", False, {"what": "shape", "got": list(np.shape(out))})
        return
    exp = B.render(shape, R)
    d = np.abs(out - exp)
    j = np.unravel_index(int(np.argmax(d)), d.shape)
    ctx.check("rotate_analytic", d.max() <= TOL_ANALYTIC * peak,
              {"what": "rotated blob differs from the closed-form rotated blob", "angles": ang, "call": case["style"], "max_abs_diff_over_peak": float(d.max() / peak),
               "voxel": list(map(int, j)), "got": float(out[j]), "expected": float(exp[j]), "box": list(shape)})
    c_in, c_out = O.centroid_offset(vol), O.centroid_offset(out)
    ctx.check("rotate_centroid", np.abs(c_out - R @ c_in).max() <= TOL_CENTROID,
              {"what": "centroid of the rotated map is not R.(centroid of the map)", "angles": ang, "call": case["style"], "centroid_in": c_in.tolist(),
               "centroid_out": c_out.tolist(), "R_centroid_in": (R @ c_in).tolist()})
    ctx.call("extract_subvolume", ctx.cmap.extract_subvolume, out, O.centre(shape) + np.array([1.5, -2.0, 0.25]), (8, 12, 6))   # an anchor's output as input: judged by extract_window
    inv = [-ang[2], -ang[1], -ang[0]]                      # (Rz(psi) Rx(theta) Rz(phi))^-1 = Rz(-phi) Rx(-theta) Rz(-psi)
    ok, back = real_rotate(ctx, "rotate", out, R=R.T, angles=inv, style=case["inv_style"])
    if ok and isinstance(back, np.ndarray) and back.shape == vol.shape:
        d = np.abs(back - vol)
        j = np.unravel_index(int(np.argmax(d)), d.shape)
        ctx.check("rotate_inverse", d.max() <= TOL_INVERSE * peak,
                  {"what": "rotating by R then by the inverse of R does not restore the smooth map", "angles": ang, "inverse_angles": inv,
                   "calls": [case["style"], case["inv_style"]], "max_abs_diff_over_peak": float(d.max() / peak), "voxel": list(map(int, j))})


def direct_indices(ctx, coord, volume_shape, sub_shape, coord_as="array"):
    """get_start_end_indices is a public function of its own: the driver calls it DIRECTLY (fresh copies, documented keyword
    names) for the same in-quantifier windows, so that the window_indices / coord_unchanged monitors are reached whatever
    cryoCAT's internal call structure is (extract_subvolume / place_object / crop need not route through the public name)."""
    ctx.call("get_start_end_indices", ctx.cmap.get_start_end_indices, coord=_as(coord_as, [float(c) for c in coord]),
             volume_shape=tuple(int(v) for v in volume_shape), subvolume_shape=tuple(int(v) for v in sub_shape))


def run_extract(ctx, case):
    cm = ctx.cmap
    vol = relayout(case["vol"], case.get("layout", "C"))
    for k, w in enumerate(case["wins"]):
        coord = _as(w["coord_as"], w["coord"])
        shp = _as(w["shape_as"], w["N"])
        ok, sub = ctx.call("extract_subvolume", cm.extract_subvolume, vol, coord, shp)              # judged by extract_window + window_indices
        if ok and k == 0 and isinstance(sub, np.ndarray) and sub.ndim == 3 and min(sub.shape) >= 4 and sub.size <= 40 ** 3:
            # the very object extract_subvolume returned goes on into the other anchors (judged like a fresh map with these values)
            M = CUBES[case.get("chain_cube", 1)]
            real_rotate(ctx, "rotate", sub, R=np.asarray(M, dtype=float), angles=[float(a) for a in so3.to_zxz(np.asarray(M, dtype=float))], style="rotation_T")
            call_sym(ctx, sub, 2, "C")
        direct_indices(ctx, w["coord"], vol.shape, w["N"], w["coord_as"])
        if w["enforce_too"]:
            try:
                cm.extract_subvolume(vol, np.array(w["coord"]), tuple(w["N"]), enforce_shape=True)    # other mode: counted, not judged
            except Exception:
                pass
        if w["crop_too"]:
            try:
                cm.crop(vol, tuple(w["N"]), crop_coord=tuple(int(math.floor(c)) for c in w["coord"]))   # workload for window_indices
                cm.crop(vol, tuple(w["N"]))
            except Exception:
                pass


def run_extract_reuse(ctx, case):
    """the same float64 centre array handed to successive calls; every call is judged against the ORIGINAL centre"""
    cm = ctx.cmap
    ru = case["reuse"]
    original = np.array(ru["coord"], dtype=np.float64)
    centre = original.copy()                                 # the caller's array, reused
    vols = [case["vol"], case["vol2"]]
    for k, q in enumerate(ru["seq"]):
        vol = vols[q["vol"]]
        if q.get("delta") is not None:
            centre += np.array(q["delta"])                   # in-place change of the caller's array between two calls ...
            original = original + np.array(q["delta"])       # ... the next call is judged against the values it holds now
        ok, res = ctx.call("extract_subvolume", cm.extract_subvolume, vol, centre, tuple(q["N"]))
        if not ok:
            return
        direct_indices(ctx, original, vol.shape, q["N"])
        kind, w = judge_window(vol, original, q["N"], res)
        if w is not None:
            w.update({"call_number": k + 1, "same_centre_array_reused": True, "centre_array_now": centre.tolist(), "original_centre": original.tolist()})
        _bump(ctx, "extract_reused_windows_" + kind)
        ctx.check("extract_window_reused", w is None, w)


def build_motl(ctx, case):
    cm = ctx.cmotl
    df = case["df"].copy()
    if case.get("int_columns"):
        for c in ("x", "y", "z", "phi", "theta", "psi"):        # integer-typed columns where the values are integral
            v = df[c].to_numpy()
            if np.all(v == np.round(v)) and np.abs(v).max() < 2 ** 50:
                df[c] = v.astype(np.int64 if c in ("x", "phi") else np.int32)
    ok, m = ctx.call("Motl(df)", cm.Motl, df)
    if not ok:
        return None
    if case.get("variant") == "remove_feature":
        ok, _ = ctx.call("remove_feature", m.remove_feature, "geom2", 99.0)
        if not ok:
            return None
    return m


def call_place(ctx, m, *a, **k):
    ok, r = ctx.call("place_object", ctx.cmap.place_object, *a, **k)
    return ok, r


TDT = {"f8": np.float64, "f4": np.float32, "i1": np.int8, "u1": np.uint8, "b1": bool, "i2": np.int16}


def place_args(case, ctx=None, tag="a"):
    dt = TDT[case.get("tdtype", "f8")]
    templ = [relayout(np.array(t, copy=True) if case.get("mask_dtype") else np.array(t, copy=True).astype(dt), case.get("tlayout", "C")) for t in case["templ"]]
    obj = templ if case["per_particle"] else templ[0]
    if case.get("tpath") and ctx is not None and not case["per_particle"]:
        t0 = np.asarray(templ[0])
        obj = write_map_file(ctx, case["tpath_name"], t0.astype(np.int8) if t0.dtype.kind in "iub" else t0.astype(np.float32), "t%d%s" % (case["i"], tag))
    kw = {}
    cont = case["container"]
    if cont == "shape_tuple":
        kw["volume_shape"] = tuple(case["V"])
    elif cont == "shape_list":
        kw["volume_shape"] = list(case["V"])
    elif cont.endswith("_path") and ctx is not None:
        kw["volume"] = write_map_file(ctx, case["path_name"], case["bg"], "v%d%s" % (case["i"], tag))
    elif cont.startswith("volume_bg") and cont.count("_") >= 2 and not cont.endswith("_path"):
        kw["volume"] = relayout(case["bg"].copy(), cont.split("_", 2)[2])
    else:
        kw["volume"] = case["bg"].copy()
    if case["feature"] != "default":
        kw["feature_to_color"] = case["feature"]
    return obj, kw


def run_place(ctx, case):
    m = build_motl(ctx, case)
    if m is None:
        return
    obj, kw = place_args(case, ctx, "a")
    ok, out = call_place(ctx, m, obj, m, **kw)              # binary templates + cube poses: judged by place_cube
    P0 = gens.positions(m.df) - 1.0
    for i in range(len(P0)):                                # the window of every particle, asked for directly as well
        direct_indices(ctx, P0[i], case["V"], case["templ"][i if case["per_particle"] else 0].shape)
    if not case["smooth"]:
        # the rotate call place_object makes per particle (rotation=, transpose_rotation=True), made DIRECTLY by the driver too, so that
        # rotate_cube judges this call form on the templates whatever function place_object uses internally to rotate them
        okr, rots = ctx.call("get_rotations", m.get_rotations)
        if okr:
            for i in range(len(P0)):
                T = case["templ"][i if case["per_particle"] else 0]
                ctx.call("rotate", ctx.cmap.rotate, np.array(T, copy=True), rotation=rots[i], transpose_rotation=True)
    if ok and case["history"]:
        # three-step history on the caller's own table: edited IN PLACE between calls (colours reversed, everything moved by one voxel,
        # then one orientation exchanged); every call is judged by place_cube on the values the table holds at that moment
        fc = case["fcol"]
        m.df[fc] = m.df[fc].to_numpy()[::-1].copy()
        m.df["x"] = m.df["x"].to_numpy() + 1.0
        call_place(ctx, m, obj, m, **place_args(case, ctx, "b")[1])
        a2, _ = cube_angles(ctx.rng(case["i"], 7), CUBES[(case["i"] * 7 + 5) % 24])
        for c in ("phi", "theta", "psi"):                      # (integer-typed angle columns cannot take a fractional angle under pandas 3)
            m.df[c] = m.df[c].to_numpy().astype(float)
        ang_now = m.df[["phi", "theta", "psi"]].to_numpy()
        ang_now[0] = a2
        m.df["phi"], m.df["theta"], m.df["psi"] = ang_now[:, 0], ang_now[:, 1], ang_now[:, 2]
        m.df["shift_z"] = m.df["shift_z"].to_numpy() - 0.5
        call_place(ctx, m, obj, m, **place_args(case, ctx, "c")[1])
    if not ok or not case["smooth"]:
        return
    if case.get("mask_dtype"):
        run_place_dtype(ctx, case, m, obj, kw, out)
        return
    df = m.df
    n = len(df)
    fcol = "object_id" if case["feature"] == "default" else case["feature"]
    cols = df[fcol].to_numpy(dtype=float)
    P = gens.positions(df)
    Rs = gens.rotations(df)
    blobs = [case["blobs"][i if case["per_particle"] else 0] for i in range(n)]
    shapes = [case["templ"][i if case["per_particle"] else 0].shape for i in range(n)]
    cont = case["bg"] if case["bg"] is not None else np.zeros(case["V"])
    exp, und, info = O.expected_placement_smooth(blobs, shapes, Rs, P, cols, cont, LEVEL, TOL_BAND)
    exp = exp.astype(cont.dtype).astype(float)
    if not isinstance(out, np.ndarray) or out.shape != exp.shape:
        ctx.check("place_random", False, {"what": "shape of the container", "got": list(np.shape(out)), "expected": list(exp.shape)})
        return
    got = out.astype(float)
    bad = (got != exp) & ~und
    w = None
    if bad.any():
        j = np.argwhere(bad)[0]
        w = {"what": "container voxel (random poses, smooth template)", "voxel": j.tolist(), "got": float(got[tuple(j)]), "expected": float(exp[tuple(j)]),
             "n_wrong": int(bad.sum()), "n_undetermined": int(und.sum()), "n_particles": n, "P0": P[0].tolist(), "angles0": df[["phi", "theta", "psi"]].to_numpy()[0].tolist(),
             "window_start0": info[0]["start"].tolist(), "template_shape0": list(shapes[0])}
    _bump(ctx, "place_random_determined_stamp_voxels", sum(x["definite_in_volume"] for x in info))
    ctx.check("place_random", w is None, w)
    # centroid of each stamp that is alone in its neighbourhood, fully inside the volume and uniquely coloured
    V = np.asarray(case["V"])
    starts = np.array([x["start"] for x in info])
    cols = cols.astype(cont.dtype).astype(float)            # the colours as the container's dtype holds them (float32 merges 2**24 and 2**24 + 1)
    for i in range(n):
        N = np.asarray(shapes[i])
        if np.any(starts[i] < 0) or np.any(starts[i] + N > V) or (cols == cols[i]).sum() != 1 or cols[i] <= 0:
            continue
        if any(j != i and np.all(np.abs(starts[j] - starts[i]) < np.maximum(N, np.asarray(shapes[j]))) for j in range(n)):
            continue
        vox = np.argwhere(got == cols[i])
        T = case["templ"][i if case["per_particle"] else 0]
        m0 = np.argwhere(T > LEVEL).mean(axis=0) - O.centre(T.shape)
        expc = starts[i] + O.centre(T.shape) + Rs[i] @ m0
        okc = len(vox) > 0 and np.abs(vox.mean(axis=0) - expc).max() <= TOL_STAMP_CENTROID
        ctx.check("place_centroid", okc, {"what": "centroid of the stamp is not floor(p-1) + R.(centroid of the thresholded template)", "particle": i,
                                          "position": P[i].tolist(), "stamp_centroid": vox.mean(axis=0).tolist() if len(vox) else None,
                                          "expected": expc.tolist(), "stamp_voxels": int(len(vox)), "template_voxels": int((T > LEVEL).sum())})


def run_place_dtype(ctx, case, m, obj, kw, out):
    """binary mask templates of an integer / bool dtype, random poses: the container must be the one obtained from the SAME values given as
    float64 (the statement speaks about values, not about the array's dtype).  Voxels whose rotated float64 template value lies within
    TOL_BAND of the threshold are undetermined (rotated with the real rotate, as place_object does, on the float64 copy)."""
    as64 = lambda t: np.array(t, dtype=np.float64)
    obj64 = [as64(t) for t in obj] if isinstance(obj, list) else as64(obj)
    kw64 = dict(kw)
    if isinstance(kw64.get("volume"), np.ndarray):
        kw64["volume"] = np.array(kw64["volume"], copy=True)
    ok, ref = call_place(ctx, m, obj64, m, **kw64)
    if not ok or not isinstance(out, np.ndarray) or not isinstance(ref, np.ndarray) or out.shape != ref.shape:
        ctx.check("place_dtype", False, {"what": "no comparable containers", "typed": list(np.shape(out)), "float64": list(np.shape(ref))})
        return
    P = gens.positions(m.df)
    okr, rots = ctx.call("get_rotations", m.get_rotations)
    und = np.zeros(ref.shape, dtype=bool)
    if okr:
        for i in range(len(P)):
            T64 = obj64[i] if isinstance(obj64, list) else obj64
            okk, r = ctx.call("rotate", ctx.cmap.rotate, T64, rotation=rots[i], transpose_rotation=True)
            if okk:
                O.stamp(und, np.abs(r - LEVEL) <= TOL_BAND, O.window_start(P[i] - 1.0, T64.shape), True)
    bad = (out.astype(float) != ref.astype(float)) & ~und
    w = None
    if bad.any():
        j = np.argwhere(bad)[0]
        w = {"what": "container differs between a %s mask template and the same values as float64" % case["mask_dtype"], "voxel": j.tolist(),
             "typed": float(out[tuple(j)]), "float64": float(ref[tuple(j)]), "n_wrong": int(bad.sum()), "n_stamped_float64": int((ref != (case["bg"] if case["bg"] is not None else 0)).sum()),
             "n_undetermined": int(und.sum()), "n_particles": len(P)}
    ctx.check("place_dtype", w is None, w)


def dirty_heap(shape):
    """free a few same-size arrays of junk, so that an accumulator taken from uninitialised memory shows"""
    junk = [np.full(shape, 1e30) for _ in range(3)]
    del junk


def spell(n, spelling):
    return {"int": n, "C": "C%d" % n, "c": "c%d" % n, "digits": "%d" % n, "float": float(n)}[spelling]


def call_sym(ctx, vol, n, spelling):
    dirty_heap(vol.shape)
    return ctx.call("symmetrize_volume", ctx.cmap.symmetrize_volume, vol, spell(n, spelling))


def judge_sym_blob(ctx, B, shape, n, sym, vol):
    peak = float(vol.max())
    exp = np.zeros(shape)
    for k in range(n):
        exp += B.render(shape, so3.Rz(k * 360.0 / n))
    exp /= n
    d = np.abs(sym - exp)
    j = np.unravel_index(int(np.argmax(d)), d.shape)
    ctx.check("sym_analytic", d.max() <= TOL_SYM_ANALYTIC * peak,
              {"what": "symmetrised blob differs from the closed-form mean of its n rotated copies", "n": n, "box": list(shape), "max_abs_diff_over_peak": float(d.max() / peak),
               "voxel": list(map(int, j)), "got": float(sym[j]), "expected": float(exp[j])})
    ok, r = ctx.call("rotate", ctx.cmap.rotate, sym, rotation_angles=[0.0, 0.0, 360.0 / n])
    if ok and isinstance(r, np.ndarray) and r.shape == sym.shape:
        d = np.abs(r - sym)
        j = np.unravel_index(int(np.argmax(d)), d.shape)
        ctx.check("sym_invariant", d.max() <= TOL_SYM_INV * peak,
                  {"what": "symmetrised map changes under the 360/n rotation about z", "n": n, "max_abs_diff_over_peak": float(d.max() / peak), "voxel": list(map(int, j))})
    tot_in, tot = float(vol.sum()), float(sym.sum())
    ctx.check("sym_total", abs(tot - tot_in) <= TOL_SYM_TOTAL * abs(tot_in), {"what": "total density changed", "n": n, "sum_in": tot_in, "sum_symmetrised": tot})


def run_sym(ctx, case):
    n, shape = case["n"], case["shape"]
    vol = relayout(case["noise"] if case["content"] == "noise" else case["blob"].render(shape), case["layout"])
    if case["content"] == "blob" and case["typed"] is not None:
        vt = relayout(typed_map(np.asarray(vol), case["typed"]), case["layout"])
        ok1, a = call_sym(ctx, vt, n, case["spelling"])
        ok2, b = call_sym(ctx, np.array(vt, dtype=np.float64), n, case["spelling"])
        if ok1 and ok2 and isinstance(a, np.ndarray) and isinstance(b, np.ndarray) and a.shape == b.shape:
            d = np.abs(a.astype(float) - b)
            mx = float(np.abs(vt.astype(float)).max())
            ctx.check("sym_dtype", d.max() <= TOL_SYM_ANALYTIC * mx,
                      {"what": "symmetrising a %s map differs from symmetrising the same values as float64" % vt.dtype, "kind": case["typed"][0], "n": n,
                       "max_abs_diff_over_max": float(d.max() / mx), "result_dtype": str(a.dtype)})
    ok, sym = call_sym(ctx, vol, n, case["spelling"])       # judged by sym_mean (+ sym_invariant_exact, + rotate_cube for the right-angle copies)
    if not ok:
        return
    if case["content"] == "blob" and isinstance(sym, np.ndarray) and sym.shape == vol.shape:
        judge_sym_blob(ctx, case["blob"], shape, n, sym, vol)


def run_link(ctx, case):
    cm, cmap = ctx.cmotl, ctx.cmap
    df = case["df"].copy()
    n, N, v = len(df), case["N"], np.array(case["v"])
    ok, m = ctx.call("Motl(df)", cm.Motl, df)
    if not ok:
        return
    R = gens.rotations(case["df"])                                   # hand-written Rz(psi) Rx(theta) Rz(phi)
    P = gens.positions(case["df"])
    ok, rots = ctx.call("get_rotations", m.get_rotations)
    if not ok:
        return
    Rm = np.asarray(rots.as_matrix(), dtype=float).reshape(-1, 3, 3)
    if not ctx.check("link_c05", Rm.shape == R.shape and np.abs(Rm - R).max() <= 1e-9,
                     {"what": "Motl.get_rotations() is not Rz(psi).Rx(theta).Rz(phi)", "angles0": case["df"][["phi", "theta", "psi"]].to_numpy()[0].tolist()}):
        return
    if case["inplace"]:
        m2 = cm.Motl(case["df"].copy())
        ok, _ = ctx.call("shift_positions", m2.shift_positions, v.astype(float))
    else:
        ok, m2 = ctx.call("shift_positions", m.shift_positions, v.astype(float), inplace=False)
    if not ok or m2 is None:
        return
    P2 = gens.positions(m2.df)
    moved = P2 - P
    T = np.zeros((N, N, N))
    c = O.centre(T.shape)
    T[tuple(c + v)] = 1.0
    obj_ok, out = call_place(ctx, m, T, m, volume_shape=tuple(case["V"]))
    if not case["inplace"]:
        call_place(ctx, m2, T, m2, volume_shape=tuple(case["V"]))          # the list another anchor returned: judged by place_cube
    for i in range(n):
        a = case["df"][["phi", "theta", "psi"]].to_numpy()[i].tolist()
        ok, rt = ctx.call("rotate", cmap.rotate, T, rotation_angles=a)
        if not ok:
            continue
        peak = np.array(np.unravel_index(int(np.argmax(rt)), rt.shape))
        w = None
        Rv = R[i] @ v
        if not (abs(rt[tuple(peak)] - 1.0) <= 1e-9 and np.abs(rt).sum() - abs(rt[tuple(peak)]) <= 1e-9):
            w = {"what": "rotating a one-voxel map by a cube rotation does not give a one-voxel map", "peak_value": float(rt[tuple(peak)])}
        elif np.abs((peak - c) - moved[i]).max() > 1e-9:
            w = {"what": "density at offset v moves to a different offset than a particle shifted by v", "density_offset": (peak - c).tolist(), "particle_displacement": moved[i].tolist()}
        elif np.abs(moved[i] - Rv).max() > 1e-9:
            w = {"what": "both move, but not to R v", "displacement": moved[i].tolist(), "R_v": Rv.tolist()}
        elif obj_ok:
            tgt = np.rint(P2[i] - 1.0).astype(int)
            col = float(case["df"]["object_id"].iloc[i])
            where = np.argwhere(out == col)
            if not (len(where) == 1 and np.array_equal(where[0], tgt)):
                w = {"what": "place_object does not stamp the voxel at offset v where shift_positions(v) puts the particle (minus one)",
                     "stamped": where[:4].tolist(), "shifted_position_minus_1": tgt.tolist(), "colour": col}
        if w is not None:
            w.update({"particle": i, "angles": a, "v": v.tolist(), "position": P[i].tolist(), "template_box": N})
        ctx.check("link_c05", w is None, w)


def run_case(ctx, case):
    cls = case["cls"]
    if cls.startswith("cube_"):
        run_cube(ctx, case)
    elif cls.startswith("blob_"):
        run_blob(ctx, case)
    elif cls.startswith("extract_"):
        run_extract(ctx, case)
        run_extract_reuse(ctx, case)
    elif cls.startswith("place_"):
        run_place(ctx, case)
    elif cls.startswith("sym_"):
        run_sym(ctx, case)
    else:
        run_link(ctx, case)


# =====================================================================================================
# exhaustive sub-spaces (shard 0)
# =====================================================================================================
def extra(ctx):
    from scipy.spatial.transform import Rotation
    cmap = ctx.cmap
    big = ctx.tier == "thorough"
    rng = ctx.rng(10 ** 6)
    boxes = [(5, 5, 5), (7, 7, 7), (9, 9, 9), (4, 4, 4), (6, 6, 6), (8, 8, 8), (10, 10, 10), (6, 7, 9), (8, 5, 4)]
    if big:
        boxes += [(11, 11, 11), (13, 13, 13), (17, 17, 17), (12, 12, 12), (16, 16, 16), (24, 24, 24), (25, 25, 25), (10, 13, 16), (15, 8, 11)]
    v0 = ctx.extra.get("rotate_cube_voxels_judged", 0)
    calls = 0
    for shape in boxes:
        vol = rng.normal(size=shape)
        for k, M in enumerate(CUBES):
            ang = [float(a) for a in so3.to_zxz(np.asarray(M, dtype=float))]
            for style in ("angles", "rotation_T"):
                ctx.cur = {"index": "extra", "cls": "exhaustive_cube", "summary": {"box": list(shape), "cube": k, "style": style, "angles": ang}}
                ctx._case_violated = False
                real_rotate(ctx, "rotate", vol, R=np.asarray(M, dtype=float), angles=ang, style=style)
                calls += 1
    ctx.extra["exhaustive_24_cube_rotations_x_boxes_x_2_call_forms_calls"] = calls
    ctx.extra["exhaustive_boxes"] = [list(b) for b in boxes]
    ctx.extra["exhaustive_cube_voxel_checks (all voxels >= 1 from every face)"] = ctx.extra.get("rotate_cube_voxels_judged", 0) - v0
    # every n of the quantifier x three spellings on an odd, an even and a non-cubic box
    cnt = 0
    for shape in [(21, 21, 21), (22, 22, 22), (22, 25, 21)]:
        B = O.random_blob(rng, shape, 2, 3, 2.0, 2.3, cyl=True)
        vol = B.render(shape)
        for n in range(2, 13):
            for spelling in ("int", "C", "digits"):
                ctx.cur = {"index": "extra", "cls": "exhaustive_sym", "summary": {"box": list(shape), "n": n, "spelling": spelling}}
                ctx._case_violated = False
                ok, sym = call_sym(ctx, vol, n, spelling)
                if ok and isinstance(sym, np.ndarray) and sym.shape == vol.shape and spelling == "int":
                    judge_sym_blob(ctx, B, shape, n, sym, vol)
                cnt += 1
    ctx.extra["exhaustive_symmetrize_n_2_to_12_x_3_spellings_x_3_boxes"] = cnt
    # every pair of in-quantifier options together (small inputs; judged by the call monitors)
    grid = 0
    for bi, shape in enumerate([(7, 7, 7), (8, 8, 8), (6, 9, 8)]):
        for dt in ("f8", "f4", "i2"):
            vol = (rng.integers(-50, 51, size=shape).astype(np.int16) if dt == "i2" else rng.normal(size=shape).astype(dt))
            for style in ("angles", "angles_rad", "rotation_T"):
                for order in (0, 1, 2, 3, 5):
                    k = 1 + (grid * 7) % 23
                    ang, _ = cube_angles(rng, CUBES[k])
                    ctx.cur = {"index": "extra", "cls": "option_grid_rotate", "summary": {"box": list(shape), "dtype": dt, "style": style, "order": order, "cube": k}}
                    ctx._case_violated = False
                    real_rotate(ctx, "rotate", vol, R=np.asarray(CUBES[k], dtype=float), angles=ang, style=style, order=order, seq=["list", "array", "tuple"][grid % 3])
                    grid += 1
    ctx.extra["option_grid_rotate_calls (box parity x dtype x call form x spline order)"] = grid
    grid = 0
    for cls in ("extract_inside", "extract_partial", "extract_outside"):
        for coord_as in ("array", "list", "tuple", "int_array"):
            for shape_as in ("tuple", "list", "array"):
                r2 = ctx.rng(10 ** 6 + 1 + grid)
                case = gen_extract(r2, cls, False)
                for w in case["wins"]:
                    integral = all(float(c) == math.floor(c) for c in w["coord"]) and max(abs(c) for c in w["coord"]) < 2 ** 40
                    w["coord_as"] = coord_as if (coord_as != "int_array" or integral) else "array"
                    w["shape_as"] = shape_as
                ctx.cur = {"index": "extra", "cls": "option_grid_extract", "summary": {"class": cls, "coord_as": coord_as, "shape_as": shape_as, "dtype": str(case["vol"].dtype)}}
                ctx._case_violated = False
                run_extract(ctx, case)
                grid += 1
    ctx.extra["option_grid_extract_cases (window class x coordinate type x shape type)"] = grid
    grid = 0
    for per_particle in (False, True):
        for container in ("shape_tuple", "shape_list", "volume_zeros", "volume_bg64", "volume_bg32", "volume_bg64_F", "volume_bg64_transposed", "volume_bg32_path"):
            for feature in ("default", "object_id", "class", "geom1", "score", "subtomo_id", "geom4"):
                r2 = ctx.rng(10 ** 6 + 500 + grid)
                case = gen_place(r2, "place_overlap" if grid % 2 else "place_cube", False, force={"n": 3 + grid % 4, "per_particle": per_particle, "container": container, "feature": feature})
                case["i"], case["cls"] = 10 ** 6 + 500 + grid, "place_cube"
                ctx.cur = {"index": "extra", "cls": "option_grid_place", "summary": {"per_particle": per_particle, "container": container, "feature": feature}}
                ctx._case_violated = False
                run_place(ctx, case)
                grid += 1
    ctx.extra["option_grid_place_cases (template list x container x colouring field)"] = grid
    # the file-writing tails of the anchors (the returned arrays are judged as usual)
    import os
    ctx.cur = {"index": "extra", "cls": "output_files", "summary": {}}
    ctx._case_violated = False
    vol = rng.normal(size=(6, 8, 10))
    ctx.call("rotate", cmap.rotate, vol, rotation_angles=[90.0, 90.0, 0.0], output_name=os.path.join(ctx.scratch, "c14_rot.em"))
    ctx.call("extract_subvolume", cmap.extract_subvolume, vol, np.array([1.5, 4.0, 9.25]), (4, 4, 6), output_file=os.path.join(ctx.scratch, "c14_sub.mrc"))
    # documented refusals
    ctx.cur = {"index": "extra", "cls": "refusals", "summary": {}}
    refused = 0
    try:
        cmap.rotate(np.zeros((4, 4, 4)))
    except ValueError:
        refused += 1
    try:
        cmap.symmetrize_volume(np.zeros((4, 4, 4)), [4])
    except ValueError:
        refused += 1
    ctx.extra["documented_refusals_observed (rotate without rotation, symmetry of a wrong type)"] = refused
