"""C08 - Particle-list set algebra and identifier discipline.

Shape: history + executable model with unique row tags (subtomo_mean carries a tag no listed operation touches).
A pool of real Motl objects is driven through 1..10 operations; next to it a pool of plain numpy row arrays (the model).
After every operation the real result is validated against what the pure row-set model allows (exact sequence where the
statement fixes the order, otherwise multiset / constraint validation, e.g. "any best row" for score ties), the table
must still have exactly the 20 fields, and every field the operation does not own must be bit-identical for survivors.
An icontract class invariant on Motl (exactly the 20 fields) is evaluated around every public method call.
"""
import collections

import numpy as np
import pandas as pd

from vmon import gens, monitors

PROP = "C08"
RULE = ("cases = histories of 1..10 operations (subset/remove/split/intersection/drop_duplicates/merge_and_renumber/"
        "merge_and_drop_duplicates/renumber_particles/renumber_objects_sequentially) over a pool of 2..3 generated lists "
        "(0..200 particles, repeated ids and feature values, zeros and NaN for missing, unsorted ids); non-trivial = at least one "
        "operation acted on a list with >= 2 rows and changed or selected rows; distinct by digest of list sizes, op names and parameters")
ASSUMPTIONS = ["NaN and 0 are the same 'missing' value (every cryoCAT constructor fills NaN with 0): a NaN that comes back as 0 is not a change",
               "NaN never occurs in key fields (ids, tomogram/object/class numbers, score/decision columns)",
               "requested values of a subset are unique; feature values are given as list or scalar (an ndarray raises ValueError in "
               "get_motl_subset although documented as array-like: noted as an observation outside the statement, not judged)",
               "order of the result is judged only where the statement fixes it (subset, removal, renumbering, merge_and_renumber)"]

CLASSES = ["mixed", "dup_ids", "with_empty", "merge_heavy", "subset_heavy", "renumber_heavy", "intersect_heavy", "tiny", "merge_many_tiny"]
COLS = gens.COLS
IX = {c: k for k, c in enumerate(COLS)}
KEYS = ["tomo_id", "object_id", "class", "geom2", "geom5", "subtomo_id"]


def plan(tier):
    if tier == "quick":
        return dict(n_cases=320, shards=2, classes=CLASSES, timeout_s=600,
                    min_evals={"subset": 100, "remove": 80, "split": 80, "intersection": 80, "drop_duplicates": 80, "merge_and_renumber": 80,
                               "merge_and_drop_duplicates": 60, "renumber_particles": 60, "renumber_objects": 80, "twenty_fields": 1000,
                               "complementary": 80, "motl_invariant(icontract)": 2000})
    return dict(n_cases=6400, shards=16, classes=CLASSES, timeout_s=3000,
                min_evals={"subset": 2000, "remove": 1600, "split": 1600, "intersection": 1600, "drop_duplicates": 1600, "merge_and_renumber": 1600,
                           "merge_and_drop_duplicates": 1200, "renumber_particles": 1200, "renumber_objects": 1600, "twenty_fields": 20000,
                           "complementary": 1600, "motl_invariant(icontract)": 40000})


# ---- model helpers ------------------------------------------------------------------------------
def rows_of(df):
    """(n,20) float array in canonical field order, NaN -> 0 ('missing')"""
    a = df[COLS].to_numpy(dtype=float)
    return np.where(np.isnan(a), 0.0, a)


def same_seq(a, b):
    return a.shape == b.shape and bool(np.array_equal(a, b))


def same_multiset(a, b):
    if a.shape != b.shape:
        return False
    if len(a) == 0:
        return True
    ka = np.lexsort(a.T[::-1])
    kb = np.lexsort(b.T[::-1])
    return bool(np.array_equal(a[ka], b[kb]))


def diff_witness(got, exp, what):
    w = {"what": what, "rows_got": int(len(got)), "rows_expected": int(len(exp))}
    if got.shape == exp.shape and len(got):
        neq = np.argwhere(got != exp)
        if len(neq):
            i, k = neq[0]
            w.update(row=int(i), field=COLS[int(k)], got=float(got[i, k]), expected=float(exp[i, k]), tag_got=float(got[i, IX["subtomo_mean"]]),
                     tag_expected=float(exp[i, IX["subtomo_mean"]]))
    else:
        tg = collections.Counter(got[:, IX["subtomo_mean"]].tolist()) if len(got) else collections.Counter()
        te = collections.Counter(exp[:, IX["subtomo_mean"]].tolist()) if len(exp) else collections.Counter()
        w["tags_unexpected"] = [t for t in (tg - te)][:6]
        w["tags_missing"] = [t for t in (te - tg)][:6]
    return w


def fields_ok(ctx, df, label):
    ok = sorted(map(str, df.columns)) == sorted(COLS) and len(df.columns) == 20
    ctx.check("twenty_fields", ok, {"after": label, "columns": [str(c) for c in df.columns]})
    return ok


# ---- icontract invariant ------------------------------------------------------------------------
_CTX = {"ctx": None}


def motl_has_exactly_the_20_fields(self):
    ctx = _CTX["ctx"]
    df = getattr(self, "df", None)
    if ctx is None or not ctx.active or df is None or not isinstance(df, pd.DataFrame):
        return True          # transient construction state (EmMotl.__init__ calls public methods before df exists)
    ok = sorted(map(str, df.columns)) == sorted(COLS)
    if not ok and (ctx.cur or {}).get("index") == "ridealong":
        # cryoCAT's own tests assign malformed frames to .df on purpose; the property only speaks about what the listed
        # operations do to well-formed lists, and a class invariant cannot tell who broke the table: counted, not judged
        ctx.ood("motl_invariant(icontract)")
        return True
    ctx.check("motl_invariant(icontract)", ok, {"columns": [str(c) for c in df.columns]})
    return True              # record and return: never raise into cryoCAT


def setup(ctx):
    from cryocat import cryomotl
    ctx.cm = cryomotl
    Mo = cryomotl.Motl
    _CTX["ctx"] = ctx
    ctx.declare("subset", "remove", "split", "intersection", "drop_duplicates", "merge_and_renumber", "merge_and_drop_duplicates",
                "renumber_particles", "renumber_objects", "twenty_fields", "complementary", "motl_invariant(icontract)")
    anchors = [("Motl.get_motl_subset", Mo.get_motl_subset), ("Motl.remove_feature", Mo.remove_feature), ("Motl.split_by_feature", Mo.split_by_feature),
               ("Motl.get_motl_intersection", Mo.get_motl_intersection, {"empty_warning": "warnings.warn(\"The intersection"}),
               ("Motl.drop_duplicates", Mo.drop_duplicates), ("Motl.merge_and_renumber", Mo.merge_and_renumber,
                {"object_offset": "motl.df.loc[:, \"object_id\"] + (feature_add - feature_min + 1)", "skip_empty": "continue"}),
               ("Motl.merge_and_drop_duplicates", Mo.merge_and_drop_duplicates, {"object_offset": "motl.df.loc[:, \"object_id\"] + (feature_add - feature_min + 1)", "skip_empty": "continue"}),
               ("Motl.renumber_particles", Mo.renumber_particles), ("Motl.renumber_objects_sequentially", Mo.renumber_objects_sequentially),
               ("Motl.check_df_correct_format", Mo.check_df_correct_format), ("Motl.create_empty_motl_df", Mo.create_empty_motl_df)]
    monitors.trace(ctx, anchors)      # trace the original code objects before icontract wraps the methods
    ic = monitors.icontract_or_none(ctx)
    if ic is not None:
        try:
            ic.invariant(motl_has_exactly_the_20_fields, error=monitors.InvariantBroken)(Mo)
            ctx.notes.append("icontract.invariant attached to cryomotl.Motl (condition records and returns True)")
        except Exception as e:
            ctx.notes.append("icontract.invariant could not be attached: %s" % e)
            ctx.ic_failed = True


# ---- generator ----------------------------------------------------------------------------------
def gen_list(rng, n, tag0, dup_ids, tomos):
    df = gens.motl_table(rng, n, tomos=len(tomos), unique_ids=not dup_ids, tags=True)
    df["subtomo_mean"] = np.arange(n) + float(tag0)
    df["tomo_id"] = rng.choice(tomos, n).astype(float)
    df["object_id"] = rng.integers(0, 6, n).astype(float) if rng.random() < 0.7 else rng.integers(-2, 40, n).astype(float)
    df["class"] = rng.integers(0, 4, n).astype(float)
    df["geom2"] = rng.integers(0, 3, n).astype(float)
    if dup_ids and n:
        df["subtomo_id"] = rng.integers(1, max(2, n // 2 + 1), n).astype(float)
    else:
        df["subtomo_id"] = rng.permutation(n).astype(float) + float(rng.integers(1, 30))
    if n and rng.random() < 0.3:
        # six- to eight-digit identifiers with neighbouring values (tomogram*1e6 + n style ids)
        base = float(rng.choice([100000, 250000, 1000000, 17000000]))
        df["subtomo_id"] = base + (rng.integers(0, max(2, n // 2 + 1), n) if dup_ids else rng.permutation(n)).astype(float)
        if rng.random() < 0.5:
            df["object_id"] = base + rng.integers(0, 4, n).astype(float)
    df["score"] = np.round(rng.uniform(0, 1, n), 3) if rng.random() < 0.5 else rng.permutation(n) / max(1, n)   # ties vs none
    if n:   # fractional field values that repeat within and between lists and share integer parts (0.25, 0.75, 1.25, ...)
        df["geom4"] = rng.integers(0, 12, n) * 0.25 + 0.25
        if rng.random() < 0.5:
            df["score"] = rng.integers(0, 8, n) * 0.125
            df["geom1"] = rng.integers(-6, 6, n) * 0.5 + 0.25
    if n and (rng.random() < 0.35 or (dup_ids and rng.random() < 0.5)):
        # decision values that differ by less than one float32 ulp (6e-8 relative), distinct in float64, in random row order:
        # "the best-scoring row" must be decided on the values the list holds, not on a narrowed copy
        for c in ("score", "geom1"):
            c0 = float(rng.uniform(0.1, 1.0)) * float(rng.choice([1.0, 1.0, 100.0, -1.0]))
            df[c] = c0 * (1.0 + rng.permutation(n) * float(rng.choice([1e-9, 3e-9, 1e-8])))
    for c in ("geom1", "shift_x", "phi"):
        if n and rng.random() < 0.4:
            df.loc[rng.random(n) < 0.2, c] = np.nan
    if n and rng.random() < 0.3:
        df.loc[rng.random(n) < 0.2, "geom3"] = 0.0
    return df


OPS = ["split_renumber_split", "subset", "remove", "split", "intersection", "drop_duplicates", "merge_and_renumber", "merge_and_drop_duplicates",
       "renumber_particles", "renumber_objects"]
WEIGHT = {"mixed": None, "dup_ids": {"drop_duplicates": 4, "merge_and_drop_duplicates": 3, "intersection": 2},
          "with_empty": {"merge_and_renumber": 3, "merge_and_drop_duplicates": 2, "subset": 2}, "merge_heavy": {"merge_and_renumber": 5, "merge_and_drop_duplicates": 4},
          "subset_heavy": {"subset": 4, "remove": 4, "split": 3}, "renumber_heavy": {"renumber_particles": 3, "renumber_objects": 5},
          "intersect_heavy": {"intersection": 6}, "tiny": None, "merge_many_tiny": {"merge_and_renumber": 8, "merge_and_drop_duplicates": 3}}


def gen(ctx, i, cls):
    rng = ctx.rng(i)
    big = ctx.tier == "thorough"
    nl = int(rng.integers(2, 4)) if cls != "merge_many_tiny" else int(rng.integers(3, 6))
    tomos = [float(t) for t in rng.choice(np.arange(1, 40), int(rng.integers(1, 5)), replace=False)]
    lists = []
    for k in range(nl):
        n = int(rng.integers(0, 201 if big else 60))
        if cls in ("tiny", "merge_many_tiny"):
            n = int(rng.integers(0, 4))
        if cls == "with_empty" and k == 1:
            n = 0
        lists.append(gen_list(rng, n, 1000 * (k + 1), dup_ids=(cls == "dup_ids" or rng.random() < 0.3), tomos=tomos))
    if cls == "merge_many_tiny":
        # object numbers from short ranges that lie below, inside and above one another (21..23, 11..12, 22..24, ...)
        for l in lists:
            if len(l):
                lo = int(rng.choice([1, 5, 11, 21, 22, 30]))
                l["object_id"] = rng.integers(lo, lo + 3, len(l)).astype(float)
    # a table index that is not 0..n-1 and not ascending (what subsets with reset_index=False, sort_values or concat leave behind)
    for l in lists:
        if len(l) and rng.random() < 0.5:
            kind = int(rng.integers(0, 5))
            if kind == 3:       # repeated labels: two lists glued with pd.concat without ignore_index
                h = (len(l) + 1) // 2
                l.index = np.concatenate([np.arange(h), np.arange(len(l) - h)])
            elif kind == 4:     # random repeats
                l.index = rng.integers(0, max(1, len(l) // 2), len(l))
            else:
                l.index = rng.permutation(len(l)) if kind == 0 else (np.arange(len(l))[::-1] * 3 + 2 if kind == 1 else np.sort(rng.choice(np.arange(3 * len(l) + 4), len(l), replace=False))[::-1])
    nops = int(rng.integers(1, 11))
    w = np.ones(len(OPS))
    for name, f in (WEIGHT[cls] or {}).items():
        w[OPS.index(name)] = f
    ops = [str(o) for o in rng.choice(OPS, nops, p=w / w.sum())]
    if WEIGHT[cls]:
        ops[0] = max(WEIGHT[cls], key=WEIGHT[cls].get)
    summ = {"list_sizes": [len(l) for l in lists], "ops": ops, "ids_repeat": [bool(l["subtomo_id"].duplicated().any()) for l in lists],
            "row0": [[float(x) for x in rows_of(l)[0][:8]] if len(l) else [] for l in lists]}
    return {"i": i, "cls": cls, "lists": lists, "ops": ops, "summary": summ}


def nontrivial(case):
    return max(len(l) for l in case["lists"]) >= 2 and len(case["ops"]) >= 1


# ---- driver -------------------------------------------------------------------------------------
def pick_values(rng, rows, feature, allow_missing=True):
    col = rows[:, IX[feature]] if len(rows) else np.zeros(0)
    uniq = list(dict.fromkeys(col.tolist()))
    k = int(rng.integers(0, min(4, len(uniq)) + 1)) if uniq else 0
    vals = [float(v) for v in rng.permutation(uniq)[:k]] if k else []
    if allow_missing and rng.random() < 0.3:
        vals.append(9999.0)
    if not vals:
        vals = [float(uniq[0])] if uniq else [9999.0]
    return vals


def run_case(ctx, case):
    cm = ctx.cm
    Mo = cm.Motl
    rng = ctx.rng(case["i"], 1)
    real, model = [], []
    for li, df in enumerate(case["lists"]):
        df = df.copy()
        if (case["i"] + li) % 3 == 0:      # the constructor accepts the 20 fields in any column order
            df = df[[COLS[k] for k in ctx.rng(case["i"], 10 + li).permutation(20)]]
        ok, m = ctx.call("Motl(df)", Mo, df)
        if not ok:
            return
        real.append(m)
        model.append(rows_of(df))
    for step, op in enumerate(case["ops"]):
        a = int(rng.integers(0, len(real)))
        b = int(rng.integers(0, len(real)))
        A, MA = real[a], model[a]
        label = "step %d %s" % (step + 1, op)
        if op == "subset":
            feature = str(rng.choice(["tomo_id", "object_id", "class", "geom2", "subtomo_id"]))
            vals = pick_values(rng, MA, feature)
            if feature in ("class", "object_id", "geom2") and len(MA) and (MA[:, IX[feature]] == 0).any() and rng.random() < 0.4:
                vals = [0.0]                 # a bare zero (class 0, object 0) is a value like any other
            arg = vals if (len(vals) > 1 or rng.random() < 0.5) else vals[0]
            if len(vals) == 1 and not isinstance(arg, list) and rng.random() < 0.5:
                arg = [int(arg) if float(arg).is_integer() else arg, np.float64(arg), np.int64(arg) if float(arg).is_integer() else np.float64(arg), -0.0 if arg == 0 else arg][int(rng.integers(0, 4))]
            reset = bool(rng.random() < 0.7)
            ok, r = ctx.call("get_motl_subset", A.get_motl_subset, arg, feature_id=feature, reset_index=reset)
            if not ok:
                return
            exp = np.concatenate([MA[MA[:, IX[feature]] == v] for v in vals]) if len(vals) else MA[:0]
            if not fields_ok(ctx, r.df, label):
                return
            got = rows_of(r.df)
            if not ctx.check("subset", same_seq(got, exp), dict(diff_witness(got, exp, label), feature=feature, values=vals)):
                return
            # complementarity with removal (on a copy)
            ok, c = ctx.call("Motl.load(copy)", Mo.load, A)
            if not ok:
                return
            ok, _ = ctx.call("remove_feature", c.remove_feature, feature, vals if rng.random() < 0.8 else np.array(vals))
            if not ok:
                return
            rest = rows_of(c.df)
            both = np.concatenate([got, rest])
            ctx.check("complementary", same_multiset(both, MA) and len(got) + len(rest) == len(MA),
                      {"what": "subset(values) + remove(values) is not the whole list", "feature": feature, "values": vals, "subset": len(got), "rest": len(rest), "all": len(MA)})
            real.append(r)
            model.append(got)
        elif op == "remove":
            feature = str(rng.choice(["tomo_id", "object_id", "class", "subtomo_id"]))
            vals = pick_values(rng, MA, feature)
            arg = vals if (len(vals) > 1 or rng.random() < 0.5) else vals[0]
            ok, _ = ctx.call("remove_feature", A.remove_feature, feature, arg)
            if not ok:
                return
            exp = MA[~np.isin(MA[:, IX[feature]], vals)]
            if not fields_ok(ctx, A.df, label):
                return
            got = rows_of(A.df)
            if not ctx.check("remove", same_seq(got, exp), dict(diff_witness(got, exp, label), feature=feature, values=vals)):
                return
            model[a] = got
        elif op == "split_renumber_split":
            # one list object: split by id, renumber the particles in place, split by id again (state kept on the object
            # between the two splits must not survive the renumbering)
            ok, parts0 = ctx.call("split_by_feature", A.split_by_feature, "subtomo_id")
            if not ok:
                return
            ok, _ = ctx.call("renumber_particles", A.renumber_particles)
            if not ok:
                return
            exp = MA.copy()
            exp[:, IX["subtomo_id"]] = np.arange(1, len(MA) + 1)
            got = rows_of(A.df)
            if not ctx.check("renumber_particles", same_seq(got, exp), diff_witness(got, exp, label)):
                return
            model[a] = got
            MA = got
            ok, parts = ctx.call("split_by_feature", A.split_by_feature, "subtomo_id")
            if not ok:
                return
            prow = [rows_of(p.df) for p in parts]
            allp = np.concatenate(prow) if prow else MA[:0]
            w = None
            if not same_multiset(allp, MA):
                w = diff_witness(allp, MA, label + ": parts after renumbering do not partition the list")
            elif any(len(set(pr[:, IX["subtomo_id"]].tolist())) != 1 for pr in prow if len(pr)):
                w = {"what": "a part holds several ids"}
            if not ctx.check("split", w is None, w):
                return
        elif op == "split":
            feature = str(rng.choice(["tomo_id", "object_id", "class", "subtomo_id", "geom2"], p=[0.25, 0.25, 0.15, 0.25, 0.1]))
            ok, parts = ctx.call("split_by_feature", A.split_by_feature, feature)
            if not ok:
                return
            prow = []
            w = None
            seen = set()
            for p in parts:
                if not fields_ok(ctx, p.df, label):
                    return
                pr = rows_of(p.df)
                prow.append(pr)
                vals = set(pr[:, IX[feature]].tolist())
                if len(vals) != 1:
                    w = {"what": "a part holds %d different values of %s" % (len(vals), feature)}
                elif vals & seen:
                    w = {"what": "value %s appears in two parts" % vals}
                else:
                    exp = MA[MA[:, IX[feature]] == list(vals)[0]]
                    if not same_seq(pr, exp):
                        w = diff_witness(pr, exp, label + ": part is not the list's rows with that value in original order")
                seen |= vals
                if w:
                    break
            if w is None:
                allp = np.concatenate(prow) if prow else MA[:0]
                if not same_multiset(allp, MA):
                    w = diff_witness(allp, MA, label + ": parts do not partition the list")
            if not ctx.check("split", w is None, w):
                return
            for p, pr in list(zip(parts, prow))[:2]:
                real.append(p)
                model.append(pr)
        elif op == "intersection":
            B, MB = real[b], model[b]
            feature = "subtomo_id" if rng.random() < 0.6 else str(rng.choice(["tomo_id", "object_id", "geom4", "score", "geom1"]))
            ok, r = ctx.call("get_motl_intersection", Mo.get_motl_intersection, A, B, feature_id=feature) if feature != "subtomo_id" or rng.random() < 0.5 \
                else ctx.call("get_motl_intersection", Mo.get_motl_intersection, A, B)
            if not ok:
                return
            if not fields_ok(ctx, r.df, label):
                return
            got = rows_of(r.df)
            exp = MA[np.isin(MA[:, IX[feature]], MB[:, IX[feature]])] if len(MB) else MA[:0]
            if not ctx.check("intersection", same_multiset(got, exp), dict(diff_witness(got, exp, label), feature=feature)):
                return
            real.append(r)
            model.append(got)
        elif op == "drop_duplicates":
            dup = "subtomo_id" if rng.random() < 0.7 else "object_id"
            dec = "score" if rng.random() < 0.7 else "geom3"
            asc = bool(rng.random() < 0.4)
            kw = {}
            if dup != "subtomo_id" or rng.random() < 0.5:
                kw["duplicates_column"] = dup
            if dec != "score" or rng.random() < 0.5:
                kw["decision_column"] = dec
            if asc or rng.random() < 0.5:
                kw["decision_sort_ascending"] = asc
            ok, _ = ctx.call("drop_duplicates", A.drop_duplicates, **kw)
            if not ok:
                return
            if not fields_ok(ctx, A.df, label):
                return
            got = rows_of(A.df)
            w = validate_best_per_id(got, MA, dup, dec, asc)
            if not ctx.check("drop_duplicates", w is None, dict(w or {}, params=kw)):
                return
            model[a] = got
        elif op in ("merge_and_renumber", "merge_and_drop_duplicates"):
            k = int(rng.integers(1, min(4, len(real)) + 1)) if case["cls"] != "merge_many_tiny" else int(rng.integers(min(3, len(real)), min(6, len(real)) + 1))
            idx = [int(x) for x in rng.choice(len(real), k, replace=False)]
            ins = [real[j] for j in idx]
            mins = [model[j] for j in idx]
            fn = getattr(Mo, op)
            ok, r = ctx.call(op, fn, list(ins))
            if not ok:
                return
            if not fields_ok(ctx, r.df, label):
                return
            got = rows_of(r.df)
            if op == "merge_and_renumber":
                w = validate_merge_renumber(got, mins)
            else:
                w = validate_merge_dropdup(got, mins)
            if not ctx.check(op, w is None, dict(w or {}, inputs=[len(x) for x in mins])):
                return
            # inputs must be left as they were
            for j, mj in zip(idx, mins):
                if not same_seq(rows_of(real[j].df), mj):
                    ctx.check(op, False, {"what": "an input list was modified by the merge", "input": j})
                    return
            real.append(r)
            model.append(got)
        elif op == "renumber_particles":
            ok, _ = ctx.call("renumber_particles", A.renumber_particles)
            if not ok:
                return
            if not fields_ok(ctx, A.df, label):
                return
            got = rows_of(A.df)
            exp = MA.copy()
            exp[:, IX["subtomo_id"]] = np.arange(1, len(MA) + 1)
            if not ctx.check("renumber_particles", same_seq(got, exp), diff_witness(got, exp, label)):
                return
            model[a] = got
        elif op == "renumber_objects":
            start = int(rng.choice([1, 1, 5, 100, 0]))
            ok, _ = ctx.call("renumber_objects_sequentially", A.renumber_objects_sequentially, start) if start != 1 or rng.random() < 0.5 \
                else ctx.call("renumber_objects_sequentially", A.renumber_objects_sequentially)
            if not ok:
                return
            if not fields_ok(ctx, A.df, label):
                return
            got = rows_of(A.df)
            w = validate_renumber_objects(got, MA, start)
            if not ctx.check("renumber_objects", w is None, dict(w or {}, start=start)):
                return
            model[a] = got
        if len(real) > 8:
            real, model = real[-8:], model[-8:]


def by_tag(rows):
    d = collections.defaultdict(list)
    for r in rows:
        d[r[IX["subtomo_mean"]]].append(r)
    return d


def validate_best_per_id(got, before, dup, dec, asc):
    ids_before = set(before[:, IX[dup]].tolist())
    ids_got = got[:, IX[dup]].tolist()
    if len(set(ids_got)) != len(ids_got):
        return {"what": "an id survives more than once", "id_column": dup}
    if set(ids_got) != ids_before:
        return {"what": "set of ids changed", "missing": list(ids_before - set(ids_got))[:5], "extra": list(set(ids_got) - ids_before)[:5]}
    cand = by_tag(before)
    for r in got:
        same = [c for c in cand.get(r[IX["subtomo_mean"]], []) if np.array_equal(c, r)]
        if not same:
            return {"what": "a surviving row is not an unaltered row of the list", "tag": float(r[IX["subtomo_mean"]]), "row": r.tolist()}
        grp = before[before[:, IX[dup]] == r[IX[dup]]][:, IX[dec]]
        best = grp.min() if asc else grp.max()
        if r[IX[dec]] != best:
            return {"what": "survivor is not a best row of its id", "id": float(r[IX[dup]]), "kept": float(r[IX[dec]]), "best": float(best), "ascending": asc}
    return None


def object_mapping_ok(pairs_by_input):
    """pairs_by_input: list over inputs of (old_obj array, new_obj array).  Each input's grouping preserved as an equivalence,
    new numbers of different inputs never collide."""
    used = []
    for k, (old, new) in enumerate(pairs_by_input):
        fwd, bwd = {}, {}
        for o, n in zip(old.tolist(), new.tolist()):
            if fwd.setdefault(o, n) != n:
                return {"what": "object %s of input %d split into two numbers" % (o, k)}
            if bwd.setdefault(n, o) != o:
                return {"what": "objects %s and %s of input %d merged into number %s" % (bwd[n], o, k, n)}
        s = set(bwd)
        for j, t in enumerate(used):
            if s & t:
                return {"what": "object numbers of inputs %d and %d collide" % (j, k), "numbers": list(s & t)[:5]}
        used.append(s)
    return None


def validate_merge_renumber(got, mins):
    mins = [m for m in mins if len(m)]
    exp = np.concatenate(mins) if mins else got[:0]
    if len(got) != len(exp):
        return {"what": "row count", "got": len(got), "expected": len(exp)}
    if len(got) == 0:
        return None
    keep = [k for k, c in enumerate(COLS) if c not in ("subtomo_id", "object_id")]
    if not np.array_equal(got[:, keep], exp[:, keep]):
        i, k = np.argwhere(got[:, keep] != exp[:, keep])[0]
        return {"what": "a field other than subtomo_id/object_id changed or rows are not in concatenation order", "row": int(i), "field": COLS[keep[int(k)]],
                "got": float(got[i, keep[int(k)]]), "expected": float(exp[i, keep[int(k)]])}
    if not np.array_equal(got[:, IX["subtomo_id"]], np.arange(1, len(got) + 1)):
        return {"what": "subtomogram numbers are not 1..N in order", "got": got[:8, IX["subtomo_id"]].tolist()}
    pairs, p = [], 0
    for m in mins:
        pairs.append((m[:, IX["object_id"]], got[p:p + len(m), IX["object_id"]]))
        p += len(m)
    return object_mapping_ok(pairs)


def validate_merge_dropdup(got, mins):
    mins = [m for m in mins if len(m)]
    allr = np.concatenate(mins) if mins else got[:0]
    ids = got[:, IX["subtomo_id"]].tolist()
    if len(set(ids)) != len(ids):
        return {"what": "an id survives more than once"}
    if set(ids) != set(allr[:, IX["subtomo_id"]].tolist()):
        return {"what": "set of ids changed"}
    keep = [k for k, c in enumerate(COLS) if c != "object_id"]
    src = []
    for r in got:
        grp = allr[allr[:, IX["subtomo_id"]] == r[IX["subtomo_id"]]]
        if r[IX["score"]] != grp[:, IX["score"]].max():
            return {"what": "survivor is not a best-scoring row of its id", "id": float(r[IX["subtomo_id"]]), "kept": float(r[IX["score"]]), "best": float(grp[:, IX["score"]].max())}
        hit = None
        for k, m in enumerate(mins):
            mm = m[(m[:, IX["subtomo_mean"]] == r[IX["subtomo_mean"]])]
            for c in mm:
                if np.array_equal(c[keep], r[keep]):
                    hit = (k, c[IX["object_id"]])
                    break
            if hit:
                break
        if hit is None:
            return {"what": "a surviving row is not an unaltered row (apart from object_id) of any input", "tag": float(r[IX["subtomo_mean"]])}
        src.append(hit)
    tags = allr[:, IX["subtomo_mean"]]
    if len(set(tags.tolist())) == len(tags):      # unambiguous provenance: check the object discipline too
        pairs = []
        for k in range(len(mins)):
            sel = [j for j, (kk, _) in enumerate(src) if kk == k]
            pairs.append((np.array([src[j][1] for j in sel]), got[sel, IX["object_id"]] if sel else np.zeros(0)))
        return object_mapping_ok(pairs)
    return None


def validate_renumber_objects(got, before, start):
    if len(got) != len(before):
        return {"what": "row count changed", "got": len(got), "before": len(before)}
    if len(got) == 0:
        return None
    keep = [k for k, c in enumerate(COLS) if c != "object_id"]
    g, b = got, before
    if not np.array_equal(g[:, keep], b[:, keep]):
        # order is not fixed by the statement: align by tag
        og, ob = np.argsort(g[:, IX["subtomo_mean"]], kind="stable"), np.argsort(b[:, IX["subtomo_mean"]], kind="stable")
        g, b = g[og], b[ob]
        if not np.array_equal(g[:, keep], b[:, keep]):
            i, k = np.argwhere(g[:, keep] != b[:, keep])[0]
            return {"what": "a field other than object_id changed", "field": COLS[keep[int(k)]], "tag": float(b[i, IX["subtomo_mean"]])}
    fwd, bwd = {}, {}
    for t, o, n in zip(b[:, IX["tomo_id"]].tolist(), b[:, IX["object_id"]].tolist(), g[:, IX["object_id"]].tolist()):
        if fwd.setdefault((t, o), n) != n:
            return {"what": "(tomogram, object) group split", "group": [t, o]}
        if bwd.setdefault(n, (t, o)) != (t, o):
            return {"what": "two (tomogram, object) groups share a number", "number": n, "groups": [list(bwd[n]), [t, o]]}
    want = set(float(x) for x in range(start, start + len(fwd)))
    if set(bwd) != want:
        return {"what": "numbers are not consecutive from the start value", "got": sorted(bwd)[:10], "expected_first": start, "groups": len(fwd)}
    return None
