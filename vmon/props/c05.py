"""C05 - Pose bookkeeping: position x+shift and orientation transform rigidly.

Shape: history + executable model.  Shadow state = (complete positions P, orientation matrices R, the 15 other fields).
Every real call of update_coordinates / scale_coordinates / shift_positions / apply_rotation / flip_handedness is judged
by a call monitor (pre-state snapshotted from the table with hand-written matrices), and the driver runs histories of
1..6 operations comparing the real list with the shadow after every step, plus explicit composition pairs.
"""
import os

import numpy as np
import pandas as pd

from vmon import gens, monitors
from vmon.oracles import so3

PROP = "C05"
RULE = ("cases = generated particle lists (positions/shifts of either sign, half-integer ties and one-ulp neighbours, all "
        "orientation classes) driven through a history of 1..6 operations drawn from update/scale/shift/rotate/flip with random "
        "parameters and dimension-table formats; non-trivial = at least 2 particles with non-zero shifts and a history that "
        "contains an operation changing the pose; distinct by digest of (n, class, operation names+parameters, first row)")
ASSUMPTIONS = ["orientation of a row = Rz(psi).Rx(theta).Rz(phi) (DESIGN section 3)", "tolerance 1e-9*max(1,|P|) on positions, 1e-9 on matrix entries (5e-7 within 1e-6 of gimbal lock: Euler-angle storage via scipy as_euler)",
               "flip_handedness is judged only when the dimension table covers every tomogram of the list",
               "z-mirror conjugate of R is M.R.M with M = diag(1,1,-1)"]

CLASSES = ["one_row_n4", "odd_index", "random", "half_ties", "gimbal", "wide_angles", "negative_positions", "n1", "multi_tomo_flip", "single_dim_flip",
           "compose_shift", "compose_rot", "flip_twice", "update_only", "big_adjacent_tomos", "block_sizes", "int_positions"]
# particle counts at which blocked / batched rewrites go wrong (2**k - 1, 2**k, 2**k + 1); the row-wise cryoCAT code needs ~1.5 ms per row
BLOCK_N = [63, 64, 65, 127, 129, 257, 513, 1025, 2049, 4097]
OTHER = [c for c in gens.COLS if c not in ("x", "y", "z", "shift_x", "shift_y", "shift_z", "phi", "theta", "psi")]
M = np.diag([1.0, 1.0, -1.0])


def plan(tier):
    if tier == "quick":
        return dict(n_cases=420, shards=2, classes=CLASSES, timeout_s=600,
                    min_evals={"update_coordinates": 150, "scale_coordinates": 80, "shift_positions": 150, "apply_rotation": 120,
                               "flip_handedness": 120, "history_model": 600, "compose": 80})
    return dict(n_cases=7000, shards=15, classes=CLASSES, timeout_s=3000,
                min_evals={"update_coordinates": 2500, "scale_coordinates": 1200, "shift_positions": 2500, "apply_rotation": 2000,
                           "flip_handedness": 2000, "history_model": 10000, "compose": 1300})


# ---- state extraction (independent of Motl accessors) -------------------------------------------
def state(df):
    return {"P": gens.positions(df), "R": gens.rotations(df), "other": df[OTHER].to_numpy(dtype=float).copy(),
            "xyz": df[["x", "y", "z"]].to_numpy(dtype=float).copy(), "sh": df[["shift_x", "shift_y", "shift_z"]].to_numpy(dtype=float).copy(),
            "tomo": df["tomo_id"].to_numpy(dtype=float).copy(), "ang": df[["phi", "theta", "psi"]].to_numpy(dtype=float).copy()}


def pose_ok(df):
    if not isinstance(df, pd.DataFrame) or sorted(df.columns) != sorted(gens.COLS) or len(df) < 1:
        return False
    v = df[["x", "y", "z", "shift_x", "shift_y", "shift_z", "phi", "theta", "psi"]].to_numpy(dtype=float)
    return bool(np.all(np.isfinite(v)) and np.abs(v[:, :6]).max() < 1e9)


def cmp_state(new, P, R, other, what, rot_tol=None):
    """-> None or witness"""
    if new["P"].shape != P.shape:
        return {"what": what + ": number of particles changed", "now": list(new["P"].shape), "expected": list(P.shape)}
    tol = 1e-9 * max(1.0, float(np.abs(P).max()))
    dp = np.abs(new["P"] - P)
    if dp.max() > tol:
        i = int(np.argmax(dp.max(axis=1)))
        return {"what": what + ": complete position", "row": i, "now": new["P"][i], "expected": P[i], "tol": tol}
    dr = np.abs(new["R"] - R)
    # orientations are only visible as zxz Euler angles; scipy's as_euler treats |sin(theta)| < ~1e-7 as gimbal lock and then
    # reproduces the rotation only to about twice that deviation, so next to the poles 5e-7 is what a correct implementation
    # can deliver (measured 2e-7); everywhere else 1e-9
    sin_theta = np.sqrt(R[:, 0, 2] ** 2 + R[:, 1, 2] ** 2)
    tol_r = np.where(sin_theta < 1e-6, 5e-7, 1e-9) if rot_tol is None else np.full(len(R), rot_tol)
    if (dr.reshape(len(R), -1).max(axis=1) > tol_r).any():
        i = int(np.argmax(dr.reshape(len(R), -1).max(axis=1) / tol_r))
        return {"what": what + ": orientation", "row": i, "max_entry_error": float(dr.max()), "now": new["R"][i], "expected": R[i]}
    if not np.array_equal(new["other"], other, equal_nan=True):
        i, k = np.argwhere(~((new["other"] == other) | (np.isnan(new["other"]) & np.isnan(other))))[0]
        return {"what": what + ": untouched field changed", "row": int(i), "field": OTHER[int(k)], "now": float(new["other"][i, k]), "expected": float(other[i, k])}
    return None


def dims_table(arg):
    """independent reading of a tomo_dimensions argument -> (kind, array) ; kind 'single' (3,) or 'per_tomo' (k,4)"""
    if isinstance(arg, str):
        a = np.loadtxt(arg, ndmin=2)
    elif isinstance(arg, pd.DataFrame):
        a = arg.to_numpy(dtype=float)
    else:
        a = np.asarray(arg, dtype=float)
    if a.ndim == 1:
        a = a.reshape(1, -1)
    if a.shape == (1, 3):
        return "single", a[0]
    if a.ndim == 2 and a.shape[1] == 4:
        return "per_tomo", a
    return None, a


# ---- call monitors ------------------------------------------------------------------------------
def _app_self(A):
    return pose_ok(getattr(A["self"], "df", None))


def _snap(A):
    return state(A["self"].df)


def _post_update(ctx, A, old, res):
    new = state(A["self"].df)
    w = cmp_state(new, old["P"], old["R"], old["other"], "update_coordinates")
    if w is None:
        if not np.array_equal(new["xyz"], np.round(new["xyz"])):
            i = int(np.argmax(np.abs(new["xyz"] - np.round(new["xyz"])).max(axis=1)))
            w = {"what": "x,y,z not integral", "row": i, "xyz": new["xyz"][i]}
        elif np.abs(new["sh"]).max() > 0.5:
            i = int(np.argmax(np.abs(new["sh"]).max(axis=1)))
            w = {"what": "|shift| > 0.5", "row": i, "shift": new["sh"][i], "before_xyz": old["xyz"][i], "before_shift": old["sh"][i]}
    ctx.check("update_coordinates", w is None, w)


def _app_scale(A):
    f = A["scaling_factor"]
    return _app_self(A) and isinstance(f, (int, float, np.integer, np.floating)) and np.isfinite(f) and f > 0


def _post_scale(ctx, A, old, res):
    f = float(A["scaling_factor"])
    w = cmp_state(state(A["self"].df), f * old["P"], old["R"], old["other"], "scale_coordinates(%r)" % f)
    ctx.check("scale_coordinates", w is None, w)


def _app_shift(A):
    try:
        s = np.asarray(A["shift"], dtype=float)
    except Exception:
        return False
    return _app_self(A) and s.shape == (3,) and bool(np.all(np.isfinite(s)))


def _post_shift(ctx, A, old, res):
    s = np.asarray(A["shift"], dtype=float)
    target = A["self"] if A.get("inplace", True) else res
    if target is None or not hasattr(target, "df"):
        ctx.check("shift_positions", False, {"what": "no shifted list returned for inplace=False"})
        return
    expP = old["P"] + np.einsum("nij,j->ni", old["R"], s)
    w = cmp_state(state(target.df), expP, old["R"], old["other"], "shift_positions(%s)" % s.tolist())
    ctx.check("shift_positions", w is None, w)


def _app_rot(A):
    from scipy.spatial.transform import Rotation
    q = A["rotation"]
    return _app_self(A) and isinstance(q, Rotation) and getattr(q, "single", True)


def _post_rot(ctx, A, old, res):
    Q = np.asarray(A["rotation"].as_matrix(), dtype=float).reshape(3, 3)
    w = cmp_state(state(A["self"].df), old["P"], old["R"] @ Q, old["other"], "apply_rotation")
    ctx.check("apply_rotation", w is None, w)


def _app_flip(A):
    if not _app_self(A) or A["tomo_dimensions"] is None:
        return False
    try:
        kind, a = dims_table(A["tomo_dimensions"])
    except Exception:
        return False
    if kind == "single":
        return True
    if kind == "per_tomo":
        tomos = set(A["self"].df["tomo_id"].astype(float))
        return tomos <= set(a[:, 0].astype(float)) and len(set(a[:, 0])) == len(a)
    return False


def _snap_flip(A):
    st = state(A["self"].df)
    st["dims"] = dims_table(A["tomo_dimensions"])
    return st


def expected_flip(old):
    kind, a = old["dims"]
    P = old["P"].copy()
    if kind == "single":
        P[:, 2] = a[2] + 1.0 - P[:, 2]
    else:
        zd = {float(t): float(z) for t, z in zip(a[:, 0], a[:, 3])}
        P[:, 2] = np.array([zd[float(t)] for t in old["tomo"]]) + 1.0 - P[:, 2]
    R = M @ old["R"] @ M
    return P, R


def _post_flip(ctx, A, old, res):
    P, R = expected_flip(old)
    w = cmp_state(state(A["self"].df), P, R, old["other"], "flip_handedness")
    ctx.check("flip_handedness", w is None, w)


def setup(ctx):
    from cryocat import cryomotl
    ctx.cm = cryomotl
    Mo = cryomotl.Motl
    f1 = monitors.wrap(ctx, Mo, "update_coordinates", "update_coordinates", _post_update, _app_self, _snap)
    f2 = monitors.wrap(ctx, Mo, "scale_coordinates", "scale_coordinates", _post_scale, _app_scale, _snap)
    f3 = monitors.wrap(ctx, Mo, "shift_positions", "shift_positions", _post_shift, _app_shift, _snap)
    f4 = monitors.wrap(ctx, Mo, "apply_rotation", "apply_rotation", _post_rot, _app_rot, _snap)
    f5 = monitors.wrap(ctx, Mo, "flip_handedness", "flip_handedness", _post_flip, _app_flip, _snap_flip)
    ctx.declare("history_model", "compose", "accessors")
    monitors.trace(ctx, [("Motl.update_coordinates", f1), ("Motl.scale_coordinates", f2), ("Motl.shift_positions", f3,
                          {"inplace": "self.df = self.df.apply(shift_coords", "copy": "new_motl = copy.deepcopy(self)"}),
                         ("Motl.apply_rotation", f4), ("Motl.flip_handedness", f5, {"single_dim": "z_dim = float(dims[\"z\"]", "per_tomo": "for t in tomos:"}),
                         ("Motl.get_coordinates", Mo.get_coordinates), ("Motl.get_rotations", Mo.get_rotations)])


# ---- generator ----------------------------------------------------------------------------------
def gen(ctx, i, cls):
    rng = ctx.rng(i)
    n = int(rng.integers(1, 40)) if ctx.tier == "quick" else int(rng.integers(1, 200))
    if cls == "n1":
        n = 1
    if cls == "block_sizes":
        pool_n = BLOCK_N + ([8193] if ctx.tier == "thorough" else [])
        n = pool_n[(i // len(CLASSES)) % len(pool_n)]
    ori = {"gimbal": "gimbal", "wide_angles": "wide"}.get(cls, "mixed")
    ntomo = int(rng.integers(2, 5)) if cls in ("multi_tomo_flip", "big_adjacent_tomos") else int(rng.integers(1, 4))
    if cls == "one_row_n4":
        ntomo = 1
    df = gens.motl_table(rng, n, tomos=ntomo, ori=ori, signed=(cls == "negative_positions" or rng.random() < 0.3))
    if cls == "half_ties" or rng.random() < 0.25:
        base = np.round(df[["x", "y", "z"]].to_numpy())
        ties = rng.choice([-2.5, -1.5, -0.5, 0.5, 1.5, 2.5, 0.0, 0.49999999999999994, np.nextafter(0.5, 1), np.nextafter(0.5, 0),
                           np.nextafter(-0.5, -1), np.nextafter(-0.5, 0), 1.0, -1.0,
                           # 1e-9 .. 5e-7 on either side of a tie: rounding through a 6-decimal text or float32 turns them into ties
                           0.5 - 1e-9, 0.5 - 3e-8, 0.5 - 1e-7, 0.5 - 3e-7, 0.5 - 4.9e-7, -0.5 + 1e-9, -0.5 + 1e-7, -0.5 + 3e-7, -0.5 + 4.9e-7,
                           0.5 + 1e-9, 0.5 + 3e-7, -0.5 - 1e-9, -0.5 - 3e-7, 1.5 - 3e-7, -1.5 + 3e-7, 2.5 - 1e-7], size=(n, 3))
        neg = rng.random((n, 3)) < 0.3
        base = np.where(neg, -base, base)
        df[["x", "y", "z"]] = base
        df[["shift_x", "shift_y", "shift_z"]] = ties
    if cls == "big_adjacent_tomos" or rng.random() < 0.1:
        # neighbouring tomogram numbers that np.isclose (rtol 1e-5), float32 or %g would merge: 100000/100001/..., 2**24 + j, ...
        old_ids = sorted(set(df["tomo_id"]))
        base_id = float(rng.choice([100000.0, 123456.0, 999999.0, 2.0 ** 24, 2.0 ** 24 + 1, 1e7, 2.0 ** 31]))
        remap = {t: base_id + j for j, t in enumerate(old_ids)}
        df["tomo_id"] = df["tomo_id"].map(remap).astype(float)
    tomos = sorted(set(df["tomo_id"]))
    extra_t = [float(t) for t in rng.choice(np.arange(100, 120), 2, replace=False)]
    dim_rows = [[t] + [float(v) for v in rng.integers(50, 600, 3)] for t in tomos + extra_t]
    rng.shuffle(dim_rows)
    if cls == "one_row_n4" or (len(tomos) == 1 and rng.random() < 0.3):
        # a per-tomogram (tomo_id x y z) table with exactly ONE row, non-cubic
        dim_rows = [[tomos[0]] + [float(v) for v in rng.choice(np.arange(50, 600), 3, replace=False)]]
    ops = []
    nops = int(rng.integers(1, 7))

    def rand_op(kind=None):
        kind = kind or str(rng.choice(["update", "scale", "shift", "rot", "flip"]))
        if kind == "update":
            return {"op": "update"}
        if kind == "scale":
            return {"op": "scale", "f": float(rng.choice([0.25, 0.5, 2.0, 4.0, 1.0, float(rng.uniform(0.3, 3.0))]))}
        if kind == "shift":
            s = rng.uniform(-20, 20, 3)
            if rng.random() < 0.2:
                s = np.array([0.0, 0.0, float(rng.uniform(-10, 10))])
            return {"op": "shift", "s": [float(v) for v in s], "inplace": bool(rng.random() < 0.75), "as": str(rng.choice(["list", "array", "tuple"]))}
        if kind == "rot":
            r = rng.random()
            if r < 0.55:
                Q = so3.random_rotations(rng, 1)[0]
            elif r < 0.7:
                Q = np.array(so3.cube_rotations()[int(rng.integers(0, 24))], dtype=float)
            else:          # refinement-sized steps: 1e-5 .. 2 degrees about a random axis (and exactly about z)
                axis = rng.normal(size=3) if rng.random() < 0.7 else np.array([0.0, 0.0, 1.0])
                Q = so3.axis_angle(axis, float(10.0 ** rng.uniform(-5, 0.3)) * float(rng.choice([-1, 1])))
            return {"op": "rot", "Q": Q.tolist()}
        fmt = str(rng.choice(["list3", "array3", "array_n4", "frame_n4", "file_n4", "file_13", "frame13"]))
        if cls == "single_dim_flip":
            fmt = str(rng.choice(["list3", "array3", "file_13", "frame13"]))
        if cls in ("multi_tomo_flip", "one_row_n4"):
            fmt = str(rng.choice(["array_n4", "frame_n4", "file_n4"]))
        return {"op": "flip", "fmt": fmt, "single": [float(v) for v in rng.integers(50, 600, 3)]}

    if cls == "compose_shift":
        ops = [rand_op("shift"), rand_op("shift")]
    elif cls == "compose_rot":
        ops = [rand_op("rot"), rand_op("rot")]
    elif cls == "flip_twice":
        f = rand_op("flip")
        if rng.random() < 0.5:
            f["fmt"] = str(rng.choice(["frame_n4", "frame13", "array_n4", "array3"]))
        ops = [f, dict(f)]
    elif cls == "update_only":
        ops = [rand_op("update")]
    elif cls in ("multi_tomo_flip", "single_dim_flip", "one_row_n4"):
        ops = [rand_op() for _ in range(nops - 1)]
        ops.insert(int(rng.integers(0, len(ops) + 1)), rand_op("flip"))
    elif cls == "big_adjacent_tomos":
        f = rand_op("flip")
        f["fmt"] = str(rng.choice(["array_n4", "frame_n4", "file_n4"]))
        ops = [rand_op() for _ in range(int(rng.integers(0, 3)))] + [f] + ([dict(f)] if rng.random() < 0.5 else [])
    elif cls == "int_positions":
        sc = rand_op("scale")
        sc["f"] = float(rng.choice([0.5, 1.5, 0.25, 2.5, float(rng.uniform(0.3, 3.0))]))
        ops = [rand_op() for _ in range(int(rng.integers(0, 3)))]
        ops.insert(int(rng.integers(0, len(ops) + 1)), sc)
        ops.append(rand_op(str(rng.choice(["update", "flip", "shift", "scale"]))))
    elif cls == "block_sizes":
        # every row-wise operation at every block-boundary count: the shift first (the slowest, most tempting to vectorise in blocks)
        ops = [rand_op("shift"), rand_op(str(rng.choice(["update", "rot", "flip", "scale"])))]
        if n < 1100:
            ops.append(rand_op(str(rng.choice(["shift", "update", "rot", "flip"]))))
    else:
        ops = [rand_op() for _ in range(nops)]
    summ = {"n": n, "tomos": len(tomos), "ops": [{k: (v if k != "Q" else np.round(np.array(v), 3).tolist()) for k, v in o.items()} for o in ops],
            "row0": {k: float(df[k].iloc[0]) for k in ("x", "shift_x", "z", "shift_z", "phi", "theta", "psi")}}
    # particles whose three shifts are exactly 0 while x,y,z are off the voxel grid (what scaling a picked list gives)
    if rng.random() < 0.3 or cls == "update_only":
        z0 = rng.random(n) < 0.4
        if n:
            z0[int(rng.integers(0, n))] = True
        df.loc[z0, ["shift_x", "shift_y", "shift_z"]] = 0.0
        if rng.random() < 0.7:
            df.loc[z0, ["x", "y", "z"]] = np.round(df.loc[z0, ["x", "y", "z"]].to_numpy() * 4) / 4 + 0.25
    if cls == "int_positions" or rng.random() < 0.08:
        # extraction positions stored in integer-typed columns (what picking tools and cryoCAT's own fixtures hold); the
        # sub-voxel part stays in the float shift columns
        for c in ("x", "y", "z"):
            df[c] = np.round(df[c].to_numpy(dtype=float)).astype(np.int64)
        for c in ("tomo_id", "object_id", "subtomo_id", "class"):
            if rng.random() < 0.5:
                df[c] = np.round(df[c].to_numpy(dtype=float)).astype(np.int64)
    holder = str(rng.choice(["Motl", "Motl", "EmMotl", "StopgapMotl", "RelionMotl:3.0", "RelionMotl:3.1", "RelionMotl:4.0"]))
    # a list whose table index is not 0..n-1 (what remove_feature / row filters / reset_index=False subsets leave behind)
    index_kind = "range"
    if cls == "odd_index" or rng.random() < 0.25:
        index_kind = str(rng.choice(["permuted", "gaps", "reversed"]))
        if index_kind == "permuted":
            df.index = rng.permutation(n)
        elif index_kind == "gaps":
            df.index = np.sort(rng.choice(np.arange(3 * n + 5), n, replace=False))
        else:
            df.index = np.arange(n)[::-1]
    summ["index"] = index_kind
    summ["holder"] = holder
    return {"i": i, "cls": cls, "df": df, "ops": ops, "dim_rows": dim_rows, "summary": summ, "holder": holder,
            "pixel_size": float(rng.choice([1.0, 2.5, 4.0]))}


def nontrivial(case):
    df = case["df"]
    moving = any(o["op"] in ("shift", "rot", "flip", "scale") for o in case["ops"]) or case["cls"] in ("update_only", "half_ties")
    return len(df) >= 2 and bool(np.any(df[["shift_x", "shift_y", "shift_z"]].to_numpy() != 0)) and moving


# ---- driver -------------------------------------------------------------------------------------
def make_dims(ctx, case, op, k):
    """Dimension tables are created once per case and format and then REUSED by every flip of the history (what a user does
    with a table kept in a variable): a flip must not depend on, or change, what an earlier flip did to its argument."""
    cache = case.setdefault("_dims_cache", {})
    key = (op["fmt"], tuple(op["single"]))
    if key not in cache:
        cache[key] = _make_dims(ctx, case, op, k)
    return cache[key]


def _make_dims(ctx, case, op, k):
    fmt = op["fmt"]
    rows = np.array(case["dim_rows"], dtype=float)
    if fmt == "frame13":
        return pd.DataFrame(np.array([op["single"]], dtype=float))
    if fmt == "list3":
        return list(op["single"])
    if fmt == "array3":
        return np.array(op["single"])
    lay = (case["i"] * 7 + k * 3) % 6
    if fmt == "array_n4":
        # the same N x 4 table in the memory layouts and dtypes arrays arrive in: C, Fortran, a transposed stack of columns
        # (what np.array([ids, xs, ys, zs]).T and DataFrame.to_numpy() give), negative stride, integer-typed, read-only
        if lay == 1:
            return np.asfortranarray(rows)
        if lay == 2:
            return np.array([rows[:, 0], rows[:, 1], rows[:, 2], rows[:, 3]]).T
        if lay == 3:
            return rows[::-1].copy()[::-1]
        if lay == 4 and np.all(rows == np.round(rows)) and np.abs(rows).max() < 2 ** 53:
            return rows.astype(np.int64)
        if lay == 5:
            r = pd.DataFrame(rows.copy()).to_numpy()
            r.setflags(write=False)
            return r
        return rows.copy()
    if fmt == "frame_n4":
        f = pd.DataFrame(rows.copy())
        # row labels of the table are not 0..n-1 (sort_values, .loc selection, concatenation)
        if lay == 1 and len(f) > 1:
            f = f.sort_values(0)
        elif lay == 2 and len(f) > 1:
            f.index = np.roll(np.arange(len(f)), 1)
        elif lay == 3:
            f.index = np.arange(len(f)) * 5 + 3
        elif lay == 4:
            f.index = [0] * len(f)
        elif lay == 5:
            f = f.iloc[::-1]
        return f
    p = os.path.join(ctx.scratch, "dims_%d_%d.txt" % (case["i"], k))
    if fmt == "file_n4":
        np.savetxt(p, rows, fmt="%.17g")
    else:
        np.savetxt(p, np.array([op["single"]]), fmt="%.17g")
    return p


def apply_real(ctx, m, case, op, k):
    from scipy.spatial.transform import Rotation
    if op["op"] == "update":
        return ctx.call("update_coordinates", m.update_coordinates) + (m,)
    if op["op"] == "scale":
        return ctx.call("scale_coordinates", m.scale_coordinates, op["f"]) + (m,)
    if op["op"] == "shift":
        s = {"list": list(op["s"]), "array": np.array(op["s"]), "tuple": tuple(op["s"])}[op["as"]]
        ok, r = ctx.call("shift_positions", m.shift_positions, s, inplace=op["inplace"])
        return ok, r, (m if op["inplace"] else r)
    if op["op"] == "rot":
        return ctx.call("apply_rotation", m.apply_rotation, Rotation.from_matrix(np.array(op["Q"]))) + (m,)
    return ctx.call("flip_handedness", m.flip_handedness, make_dims(ctx, case, op, k)) + (m,)


def apply_model(sh, case, op):
    P, R = sh["P"], sh["R"]
    if op["op"] == "scale":
        P = op["f"] * P
    elif op["op"] == "shift":
        P = P + np.einsum("nij,j->ni", R, np.array(op["s"]))
    elif op["op"] == "rot":
        R = R @ np.array(op["Q"])
    elif op["op"] == "flip":
        P = P.copy()
        if op["fmt"] in ("list3", "array3", "file_13", "frame13"):
            P[:, 2] = op["single"][2] + 1.0 - P[:, 2]
        else:
            zd = {r[0]: r[3] for r in case["dim_rows"]}
            P[:, 2] = np.array([zd[float(t)] for t in sh["tomo"]]) + 1.0 - P[:, 2]
        R = M @ R @ M
    return dict(sh, P=P, R=R)


def run_case(ctx, case):
    cm = ctx.cm
    # the list may be held by the base class or by any of its subclasses (they are all particle lists and inherit the five
    # operations); subclass constructors reset the table index, which the shadow accounts for by reading the state afterwards
    kind = case.get("holder", "Motl")
    if kind == "EmMotl":
        ok, m = ctx.call("EmMotl(df)", cm.EmMotl, case["df"].copy())
    elif kind == "StopgapMotl":
        ok, m = ctx.call("StopgapMotl(df)", cm.StopgapMotl, case["df"].copy())
    elif kind.startswith("RelionMotl"):
        ver = float(kind.split(":")[1])
        ok, m = ctx.call("RelionMotl(df)", cm.RelionMotl, case["df"].copy(), version=ver, pixel_size=case.get("pixel_size", 2.5), binning=1.0)
    else:
        ok, m = ctx.call("Motl(df)", cm.Motl, case["df"].copy())
    if not ok:
        return
    if kind != "Motl":
        ref = state(case["df"])
        now = state(m.df)
        w = cmp_state(now, ref["P"], ref["R"], ref["other"], "holding the list in a %s" % kind)
        if not ctx.check("history_model", w is None, w):
            return
    st0 = state(m.df)
    # accessor agreement: Motl.get_coordinates / get_rotations are the documented observation points
    gc = np.asarray(m.get_coordinates(), dtype=float)
    gr = np.asarray(m.get_rotations().as_matrix(), dtype=float).reshape(-1, 3, 3)
    ctx.check("accessors", np.abs(gc - st0["P"]).max() <= 1e-9 * max(1, np.abs(st0["P"]).max()) and np.abs(gr - st0["R"]).max() <= 1e-9,
              {"what": "get_coordinates/get_rotations disagree with x+shift / Rz(psi)Rx(theta)Rz(phi)"})
    sh = dict(st0)
    for k, op in enumerate(case["ops"]):
        ok, _, m2 = apply_real(ctx, m, case, op, k)
        if not ok or m2 is None:
            return
        m = m2
        sh = apply_model(sh, case, op)
        new = state(m.df)
        w = cmp_state(new, sh["P"], sh["R"], sh["other"], "after step %d (%s)" % (k + 1, op["op"]))
        if w is None and op["op"] == "update":
            if not np.array_equal(new["xyz"], np.round(new["xyz"])) or np.abs(new["sh"]).max() > 0.5:
                w = {"what": "after update: x,y,z not integral or |shift| > 0.5"}
        if not ctx.check("history_model", w is None, w):
            return
        # every step is judged on its own; the shadow then continues from the validated real state, so that the rounding a
        # correct implementation incurs when it stores an orientation as Euler angles next to gimbal lock is not carried
        # into later steps as if it were an error of those steps
        sh = dict(sh, P=new["P"], R=new["R"], tomo=new["tomo"])
    # explicit composition pairs on fresh objects
    cls = case["cls"]
    if cls == "compose_shift":
        a = cm.Motl(case["df"].copy())
        s12 = (np.array(case["ops"][0]["s"]) + np.array(case["ops"][1]["s"])).tolist()
        ok, _ = ctx.call("shift_positions(s1+s2)", a.shift_positions, s12)
        if ok:
            w = cmp_state(state(m.df), gens.positions(a.df), gens.rotations(a.df), a.df[OTHER].to_numpy(float), "s1 then s2 vs s1+s2")
            ctx.check("compose", w is None, w)
    elif cls == "compose_rot":
        from scipy.spatial.transform import Rotation
        a = cm.Motl(case["df"].copy())
        Q12 = np.array(case["ops"][0]["Q"]) @ np.array(case["ops"][1]["Q"])
        ok, _ = ctx.call("apply_rotation(Q1*Q2)", a.apply_rotation, Rotation.from_matrix(Q12))
        if ok:
            w = cmp_state(state(m.df), gens.positions(a.df), gens.rotations(a.df), a.df[OTHER].to_numpy(float), "Q1 then Q2 vs Q1*Q2", rot_tol=1e-6)
            ctx.check("compose", w is None, w)
    elif cls == "flip_twice":
        now = m.df[gens.COLS].to_numpy(dtype=float)
        orig = case["df"][gens.COLS].to_numpy(dtype=float)
        d = np.abs(now - orig)
        tol = 1e-9 * max(1.0, float(np.abs(orig).max()))
        w = None
        if d.max() > tol:
            i, k = np.unravel_index(int(np.argmax(d)), d.shape)
            w = {"what": "flip twice does not restore the list", "row": int(i), "field": gens.COLS[int(k)], "now": float(now[i, k]), "original": float(orig[i, k])}
        ctx.check("compose", w is None, w)
