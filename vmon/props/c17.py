"""C17 - Tilt-series metadata: mdoc round trip, loaders, wedge lists.

Call monitors (attached in place, so calls made from inside cryoCAT are judged too):
  mdoc_write        post(Mdoc.write): the text on disk, parsed by an independent section parser, has the header entries, the titles
                    and exactly the sections of the images that are not removed (all when removed=True), in table order, every
                    key = value pair standing for the table cell.
  mdoc_read         post(Mdoc._read_mdoc): titles / header dict / image table equal the independent parse of the same text
                    (numbers by value, everything else as stripped text; Removed all False; TiltAngle numeric).
  sort_by_tilt      post(Mdoc.sort_by_tilt): TiltAngle ascending, every image keeps its cells (ZValue = 0..n-1 when asked), header kept.
  remove_images     post(Mdoc.remove_images): exactly the images at the given positions (of the kept / of all images) get the flag,
                    nothing else changes.
  kept_images       post(Mdoc.kept_images): the rows with Removed == False, in order.
  one_value_per_line_read, tlt_load, total_dose_load, gctf_read, ctffind4_read: the numbers in the file (independent readers),
                    angles ascending, defocus * 1e-4, mean = (U+V)/2, mdoc dose = prior + exposure in tilt order.
  wedge_sg, wedge_sg_batch, wedge_em_batch, wedge_sg_to_em: the returned tables and the written STAR / EM files equal the
                    expectation computed from the arguments by independent readers (vmon.oracles.c17_oracle).
Driver-side relational checks:
  mdoc_roundtrip    Mdoc(written file) equals the kept part of the object that was written (titles, header, table); write again -> same.
  mdoc_history      sections present in the written file = model of the generated images after the sort / remove history.
  loader_truth, defocus_truth, wedge_truth: results equal the numbers the generator put into the files (no file parser involved).
  wedge_em_consistent: EM list from tilt files == EM list converted from the STOPGAP list of the same tomograms.
  index_array_unchanged: an index ndarray handed to mdoc.remove_images / Mdoc.remove_images is the caller's: it must hold the same
                    numbers afterwards; the same array is reused for 2..3 mdocs and every written file is judged (mdoc_history)
                    against the ORIGINAL index values.
"""
import os
import shutil

import numpy as np
import pandas as pd

from vmon import monitors
from vmon.oracles import c17_oracle as O
from vmon.oracles import files, star

PROP = "C17"
RULE = ("cases = grammar-generated mdoc texts (header keys, [T = ..] titles, 1..80 [ZValue = k] sections, int/float/negative/text/"
        "special values, CRLF/LF, blank-line layouts, acquisition schemes) driven through read / sort / remove (index subsets) / "
        "write / re-read histories; one-value-per-line tilt and dose files in 11 layouts, gctf STAR and ctffind4 texts with 1..80 "
        "rows; wedge-list projects of 1..5 tomograms with per-tomogram dimensions, z-shifts, tilt/defocus/dose files or arrays and "
        "'$xxx' file formats; non-trivial = at least 2 images / rows / tilts and (an operation, a hostile value, more than one "
        "tomogram or a defocus/dose pairing present); distinct by digest of sizes, layout flags, operations and first values")
ASSUMPTIONS = ["mdoc grammar: unique keys, the same key set in every section (ragged sections give NaN cells that re-read as the text 'nan': observed, "
               "outside the grammar, not judged), TiltAngle present, no '=' / newline inside values, no bracket at a title edge",
               "image tables judged by remove_images have distinct row labels (0..n-1 from a file, or any permutation/relabelling); the repeated "
               "labels that merge_mdoc_files leaves behind (every frame label 0: remove_images then flags every image) are outside the quantifier",
               "table cells compare by value: numbers with ==, texts verbatim; an int and a float of equal value are the same",
               "file numbers are compared as float32 (the loaders' documented data type) within 2 ulp; defocus from ctffind4 within 1e-6 relative",
               "sort_by_tilt with tied angles may order the tied images either way; tilt ties are excluded from dose and wedge pairings",
               "tilt files given to the wedge-list functions hold ascending angles, exact repeats allowed (quantifier; the i-th line pairs with the i-th defocus/dose row); tomogram lists read from a file come back ascending",
               "total_dose_load from an mdoc without PriorRecordDose (DateTime branch) is exercised but not judged: the statement defines prior + exposure only",
               "re-reading a written mdoc with zero kept images is not judged (the grammar has 1..80 images)"]

CLASSES = ["mdoc_plain", "mdoc_crlf", "mdoc_values", "mdoc_n1", "mdoc_large", "mdoc_sort", "mdoc_remove", "mdoc_history",
           "mdoc_odd_index", "mdoc_module_funcs", "mdoc_reuse_indices", "mdoc_frameset", "mdoc_expfloat", "mdoc_unicode",
           "tlt_files", "dose_files", "dose_mdoc", "gctf", "ctffind4",
           "wedge_single", "wedge_batch_files", "wedge_batch_tables", "wedge_batch_mdoc", "wedge_em", "wedge_int_zshift"]



def plan(tier):
    # core.py requires HALF of the stated figure.  The figures of mdoc_read, kept_images, one_value_per_line_read, gctf_read,
    # ctffind4_read and wedge_sg are 1.6 x what the driver's own DIRECT calls reach (measured with VERIF_BYPASS_INTERNAL=1), so the
    # floors hold whatever cryoCAT's internal call structure is.
    if tier == "quick":
        return dict(n_cases=25 * 17, shards=2, classes=CLASSES, timeout_s=1800, env={"PYTHONUTF8": "1"},
                    min_evals={"mdoc_write": 180, "mdoc_read": 1040, "mdoc_roundtrip": 160, "mdoc_history": 130, "sort_by_tilt": 80,
                               "remove_images": 100, "kept_images": 530, "one_value_per_line_read": 900, "tlt_load": 400,
                               "total_dose_load": 200, "gctf_read": 130, "ctffind4_read": 130, "defocus_load": 50, "wedge_sg": 440, "wedge_sg_batch": 60,
                               "wedge_em_batch": 35, "wedge_sg_to_em": 35, "index_array_unchanged": 25, "loader_truth": 350, "defocus_truth": 90, "wedge_truth": 120})
    return dict(n_cases=25 * 240, shards=12, classes=CLASSES, timeout_s=6000, env={"PYTHONUTF8": "1"},
                min_evals={"mdoc_write": 2700, "mdoc_read": 14200, "mdoc_roundtrip": 2400, "mdoc_history": 2000, "sort_by_tilt": 1200,
                           "remove_images": 1500, "kept_images": 6800, "one_value_per_line_read": 11400, "tlt_load": 6000,
                           "total_dose_load": 3000, "gctf_read": 2500, "ctffind4_read": 2280, "defocus_load": 750, "wedge_sg": 6400, "wedge_sg_batch": 900,
                           "wedge_em_batch": 500, "wedge_sg_to_em": 500, "index_array_unchanged": 400, "loader_truth": 5000, "defocus_truth": 1300, "wedge_truth": 1800})


# ================================================================================================
# mdoc call monitors
# ================================================================================================
def _obj_ok(m):
    imgs = getattr(m, "imgs", None)
    sid = getattr(m, "section_id", None)
    if not isinstance(imgs, pd.DataFrame) or not isinstance(sid, str) or len(imgs) < 1:
        return False
    cols = [c for c in imgs.columns]
    if not all(isinstance(c, str) for c in cols) or len(set(cols)) != len(cols) or "Removed" not in cols or sid not in cols:
        return False
    if imgs["Removed"].dtype != bool:
        return False
    return True


def _cell_writable(v):
    if isinstance(v, (bool, np.bool_)):
        return False
    if O.is_num(v):
        return not (isinstance(v, (float, np.floating)) and not np.isfinite(v))
    return isinstance(v, str) and v == v.strip() and "=" not in v and "\n" not in v and "\r" not in v


def _w_app(A):
    m = A["self"]
    if not _obj_ok(m) or not isinstance(getattr(m, "project_info", None), dict) or not isinstance(getattr(m, "titles", None), list):
        return False
    path = A["out_path"] or getattr(m, "file_path", None)
    if not isinstance(path, str):
        return False
    for k, v in m.project_info.items():
        if not isinstance(k, str) or not k or k != k.strip() or "=" in k or k.startswith("[") or not _cell_writable(v):
            return False
    for t in m.titles:
        if not isinstance(t, str) or t != t.strip() or not t or t.startswith("[") or t.endswith("]") or "\n" in t:
            return False
    for c in m.imgs.columns:
        if c in ("Removed",):
            continue
        if not c or c != c.strip() or "=" in c or c.startswith("["):
            return False
        if not all(_cell_writable(v) for v in m.imgs[c].tolist()):
            return False
    return True


def _w_snap(A):
    m = A["self"]
    cols, _, _ = O.table_state(m.imgs)
    raw = [list(r) for r in m.imgs.itertuples(index=False, name=None)]
    return {"path": A["out_path"] or m.file_path, "header": list(m.project_info.items()), "titles": list(m.titles), "sid": m.section_id,
            "cols": cols, "rows": raw, "removed": [bool(x) for x in m.imgs["Removed"].tolist()]}


def _w_post(ctx, A, old, result):
    try:
        text = open(old["path"], "rb").read().decode("utf-8")
        p = O.parse_mdoc(text)
    except (OSError, UnicodeDecodeError, ValueError) as e:
        ctx.check("mdoc_write", False, {"what": "written text is outside the mdoc grammar", "error": str(e)[:200]})
        return
    w = None
    if [k for k, _ in p["header"]] != [k for k, _ in old["header"]]:
        w = {"what": "header keys", "file": [k for k, _ in p["header"]], "expected": [k for k, _ in old["header"]]}
    else:
        for (k, t), (_, v) in zip(p["header"], old["header"]):
            if not O.value_matches(t, v):
                w = {"what": "header value", "key": k, "file": t, "object": repr(v)}
                break
    if w is None and p["titles"] != old["titles"]:
        w = {"what": "titles", "file": p["titles"], "expected": old["titles"]}
    if w is None:
        sid, cols = old["sid"], old["cols"]
        js = cols.index(sid)
        want = [r for r, rem in zip(old["rows"], old["removed"]) if A["removed"] or not rem]
        got_ids = [s["id"] for s in p["sections"]]
        if p["sections"] and p["section_id"] != sid:
            w = {"what": "section keyword", "file": p["section_id"], "expected": sid}
        elif len(got_ids) != len(want) or not all(O.value_matches(g, r[js]) for g, r in zip(got_ids, want)):
            w = {"what": "sections written != images not removed", "file_ids": got_ids[:40], "expected_ids": [repr(r[js]) for r in want][:40],
                 "removed_flags": old["removed"][:40], "write_removed": bool(A["removed"])}
        else:
            keys = [c for c in cols if c not in (sid, "Removed")]
            for si, (s, r) in enumerate(zip(p["sections"], want)):
                if [k for k, _ in s["items"]] != keys:
                    w = {"what": "keys of a section", "section": si, "file": [k for k, _ in s["items"]][:12], "expected": keys[:12]}
                    break
                for k, t in s["items"]:
                    if not O.value_matches(t, r[cols.index(k)]):
                        w = {"what": "section value", "section": si, "key": k, "file": t, "object": repr(r[cols.index(k)])}
                        break
                if w:
                    break
    ctx.check("mdoc_write", w is None, w)


def _r_post(ctx, A, old, result):
    try:
        text = open(A["file_path"], "rb").read().decode("utf-8")
        p = O.parse_mdoc(text)
    except (OSError, UnicodeDecodeError, ValueError):
        ctx.ood("mdoc_read")
        return
    if O.mdoc_in_grammar(p) is not None:
        ctx.ood("mdoc_read")
        return
    w = None
    try:
        titles, info, imgs, sid = result
    except Exception:
        ctx.check("mdoc_read", False, {"what": "result is not (titles, project_info, imgs, section_id)"})
        return
    if list(titles) != p["titles"]:
        w = {"what": "titles", "read": list(titles), "file": p["titles"]}
    elif sid != p["section_id"]:
        w = {"what": "section keyword", "read": sid, "file": p["section_id"]}
    elif list(info.keys()) != [k for k, _ in p["header"]]:
        w = {"what": "header keys", "read": list(info.keys()), "file": [k for k, _ in p["header"]]}
    else:
        for k, t in p["header"]:
            if not O.value_matches(t, info[k]):
                w = {"what": "header value", "key": k, "read": repr(info[k]), "file": t}
                break
    if w is None:
        k0 = [k for k, _ in p["sections"][0]["items"]]
        want_cols = [sid] + k0 + ["Removed"]
        if not isinstance(imgs, pd.DataFrame) or [str(c) for c in imgs.columns] != want_cols:
            w = {"what": "columns", "read": [str(c) for c in getattr(imgs, "columns", [])][:20], "expected": want_cols[:20]}
        elif len(imgs) != len(p["sections"]):
            w = {"what": "number of images", "read": len(imgs), "file": len(p["sections"])}
        elif list(imgs.index) != list(range(len(imgs))):
            w = {"what": "row labels are not 0..n-1", "read": list(imgs.index)[:10]}
        else:
            rows = [list(r) for r in imgs.itertuples(index=False, name=None)]
            for i, (s, r) in enumerate(zip(p["sections"], rows)):
                d = dict(s["items"])
                d[sid] = s["id"]
                for c, v in zip(want_cols, r):
                    if c == "Removed":
                        ok = isinstance(v, (bool, np.bool_)) and not v
                    elif c in (sid, "TiltAngle"):
                        ok = O.is_num(v) and O.value_matches(d[c], v)
                    else:
                        ok = O.value_matches(d[c], v)
                    if not ok:
                        w = {"what": "cell", "image": i, "column": c, "read": repr(v), "file": d.get(c)}
                        break
                if w:
                    break
    ctx.check("mdoc_read", w is None, w)


def _state(m):
    cols, idx, rows = O.table_state(m.imgs)
    return {"cols": cols, "idx": idx, "rows": rows, "titles": list(m.titles) if isinstance(m.titles, list) else m.titles,
            "info": [(k, O.cell(v)) for k, v in m.project_info.items()] if isinstance(m.project_info, dict) else None}


def _s_app(A):
    m = A["self"]
    if not _obj_ok(m) or "TiltAngle" not in m.imgs.columns:
        return False
    t = m.imgs["TiltAngle"]
    if t.dtype.kind not in "fiu" or not np.all(np.isfinite(t.to_numpy(dtype=float))):
        return False
    if A["reset_z_value"] and "ZValue" not in m.imgs.columns:
        return False           # FrameSet files: the quantifier speaks of ZValue sections
    return True


def _s_snap(A):
    return _state(A["self"])


def _s_post(ctx, A, old, result):
    new = _state(A["self"])
    reset = bool(A["reset_z_value"])
    w = None
    if new["cols"] != old["cols"]:
        w = {"what": "columns changed", "now": new["cols"][:20], "before": old["cols"][:20]}
    elif len(new["rows"]) != len(old["rows"]):
        w = {"what": "number of images changed", "now": len(new["rows"]), "before": len(old["rows"])}
    elif new["titles"] != old["titles"] or new["info"] != old["info"]:
        w = {"what": "header changed by sorting"}
    else:
        jt = new["cols"].index("TiltAngle")
        tl = [r[jt][1] for r in new["rows"]]
        if any(b < a for a, b in zip(tl, tl[1:])):
            k = [b < a for a, b in zip(tl, tl[1:])].index(True)
            w = {"what": "TiltAngle not ascending", "position": k, "angles": tl[max(0, k - 1):k + 3]}
        skip = new["cols"].index("ZValue") if reset else None

        def strip(r):
            return tuple(c for j, c in enumerate(r) if j != skip)
        if w is None:
            if len(set(old["idx"])) == len(old["idx"]):
                before = {lab: strip(r) for lab, r in zip(old["idx"], old["rows"])}
                if sorted(map(repr, new["idx"])) != sorted(map(repr, old["idx"])):
                    w = {"what": "row labels changed", "now": new["idx"][:10], "before": old["idx"][:10]}
                else:
                    for pos, (lab, r) in enumerate(zip(new["idx"], new["rows"])):
                        if strip(r) != before[lab]:
                            j = [a != b for a, b in zip(strip(r), before[lab])].index(True)
                            w = {"what": "an image's cells changed while sorting", "position": pos, "label": lab, "now": list(strip(r)[j]), "before": list(before[lab][j])}
                            break
            else:
                a = sorted(repr(strip(r)) for r in new["rows"])
                b = sorted(repr(strip(r)) for r in old["rows"])
                if a != b:
                    w = {"what": "multiset of images changed while sorting"}
        if w is None and reset:
            z = [r[skip] for r in new["rows"]]
            if [c[1] if c[0] == "n" else None for c in z] != list(range(len(z))):
                w = {"what": "ZValue not reset to 0..n-1 in tilt order", "now": [list(c) for c in z[:10]]}
    ctx.check("sort_by_tilt", w is None, w)


def _rm_indices(A, m):
    ind = A["indices"]
    if isinstance(ind, np.ndarray):
        if ind.ndim != 1 or ind.dtype.kind not in "iu":
            return None
        ind = ind.tolist()
    elif isinstance(ind, (list, tuple, range)):
        ind = list(ind)
        if not all(isinstance(x, (int, np.integer)) and not isinstance(x, (bool, np.bool_)) for x in ind):
            return None
    else:
        return None
    flags = [bool(x) for x in m.imgs["Removed"].tolist()]
    pool = [k for k, f in enumerate(flags) if not f] if A["kept_only"] else list(range(len(flags)))
    if any(x < 0 or x >= len(pool) for x in ind):
        return None
    return [pool[int(x)] for x in ind]


def _rm_app(A):
    m = A["self"]
    # repeated row labels (only merge_mdoc_files produces them) are outside the quantifier: one grammar text -> labels 0..n-1 or a permutation
    return _obj_ok(m) and len(set(m.imgs.index)) == len(m.imgs) and _rm_indices(A, m) is not None


def _rm_snap(A):
    st = _state(A["self"])
    st["targets"] = _rm_indices(A, A["self"])
    return st


def _rm_post(ctx, A, old, result):
    new = _state(A["self"])
    w = None
    jr = old["cols"].index("Removed")
    if new["cols"] != old["cols"] or new["idx"] != old["idx"] or len(new["rows"]) != len(old["rows"]):
        w = {"what": "table shape / order / labels changed by remove_images"}
    elif new["titles"] != old["titles"] or new["info"] != old["info"]:
        w = {"what": "header changed by remove_images"}
    else:
        want = [r[jr][1] or (k in old["targets"]) for k, r in enumerate(old["rows"])]
        got = [r[jr][1] if r[jr][0] == "b" else None for r in new["rows"]]
        if got != want:
            k = [a != b for a, b in zip(got, want)].index(True)
            w = {"what": "Removed flags", "position": k, "now": got[:40], "expected": want[:40], "indices": list(map(int, list(A["indices"])))[:40],
                 "kept_only": bool(A["kept_only"]), "labels_unique": len(set(old["idx"])) == len(old["idx"])}
        else:
            for k, (a, b) in enumerate(zip(new["rows"], old["rows"])):
                if [c for j, c in enumerate(a) if j != jr] != [c for j, c in enumerate(b) if j != jr]:
                    w = {"what": "another cell changed by remove_images", "position": k}
                    break
    ctx.check("remove_images", w is None, w)


def _k_app(A):
    return _obj_ok(A["self"])


def _k_post(ctx, A, old, result):
    cols, idx, rows = O.table_state(A["self"].imgs)
    jr = cols.index("Removed")
    want = [(lab, r) for lab, r in zip(idx, rows) if r[jr] == ("b", False)]
    w = None
    if not isinstance(result, pd.DataFrame):
        w = {"what": "not a DataFrame"}
    else:
        c2, i2, r2 = O.table_state(result)
        if c2 != cols or i2 != [lab for lab, _ in want] or r2 != [r for _, r in want]:
            w = {"what": "kept_images is not the rows with Removed == False in order", "got_labels": i2[:20], "expected_labels": [lab for lab, _ in want][:20]}
    ctx.check("kept_images", w is None, w)


# ================================================================================================
# loader call monitors
# ================================================================================================
def _asc(a):
    a = np.asarray(a, dtype=float)
    return bool(np.all(np.diff(a) >= 0))


def _ovl_post(ctx, A, old, result):
    if np.dtype(A["data_type"]) != np.dtype(np.float32):
        ctx.ood("one_value_per_line_read")
        return
    v = O.read_numbers(A["file_path"])
    if v is None:
        ctx.ood("one_value_per_line_read")
        return
    r = np.asarray(result)
    ok = r.ndim == 1 and r.dtype == np.float32 and O.f32_close(r, v)
    w = None
    if not ok:
        w = {"what": "returned values != numbers in the file", "shape": list(r.shape), "dtype": str(r.dtype), "got": r.ravel()[:6], "file": v[:6], "n_file": len(v)}
    ctx.check("one_value_per_line_read", ok, w)


def _vec_witness(what, got, exp):
    g = np.asarray(got)
    return {"what": what, "got_shape": list(g.shape), "expected_shape": list(np.shape(exp)), "got": g.ravel()[:8].tolist() if g.dtype != object else [repr(x) for x in g.ravel()[:8]],
            "expected": np.asarray(exp).ravel()[:8].tolist()}


def _tlt_post(ctx, A, old, result):
    arg = A["input_tlt"]
    try:
        exp, kind = O.arg_tilts(arg, bool(A["sort_angles"]))
    except O.OutOfDomain:
        ctx.ood("tlt_load")
        return
    r = np.asarray(result)
    if kind in ("array", "list"):
        ok = isinstance(result, np.ndarray) and r.shape == np.shape(exp) and bool(np.all(r == np.asarray(exp)))
        ctx.check("tlt_load", ok, None if ok else _vec_witness("array input not returned as given", r, exp))
        return
    try:
        rf = r.astype(float)
    except (TypeError, ValueError):
        ctx.check("tlt_load", False, _vec_witness("non-numeric tilts", r, exp))
        return
    if kind == "mdoc":
        ok = rf.shape == exp.shape and bool(np.all(np.abs(rf - exp) <= 1e-12 * np.maximum(1, np.abs(exp))))
    else:
        ok = rf.ndim == 1 and O.f32_close(rf, exp)
    if ok and A["sort_angles"] and not _asc(rf):
        ok = False
    ctx.check("tlt_load", ok, None if ok else _vec_witness("tilts != %s numbers (%s)" % (kind, "ascending" if A["sort_angles"] else "file order"), r, exp))


def _dose_post(ctx, A, old, result):
    arg = A["input_dose"]
    try:
        exp, kind = O.arg_dose(arg, bool(A["sort_mdoc"]))
    except O.OutOfDomain:
        ctx.ood("total_dose_load")
        return
    r = np.asarray(result)
    if kind in ("array", "list"):
        ok = isinstance(result, np.ndarray) and r.shape == np.shape(exp) and bool(np.all(r == np.asarray(exp)))
        ctx.check("total_dose_load", ok, None if ok else _vec_witness("array input not returned as given", r, exp))
        return
    try:
        rf = np.array([float(x) for x in r.ravel()]).reshape(r.shape)
    except (TypeError, ValueError):
        ctx.check("total_dose_load", False, _vec_witness("non-numeric dose", r, exp))
        return
    if kind == "mdoc":
        ok = rf.shape == exp.shape and bool(np.all(np.abs(rf - exp) <= 1e-9 * np.maximum(1, np.abs(exp))))
        what = "dose != PriorRecordDose + ExposureDose in %s order" % ("tilt" if A["sort_mdoc"] else "file")
    else:
        ok = rf.ndim == 1 and O.f32_close(rf, exp)
        what = "dose != numbers in the file"
    ctx.check("total_dose_load", ok, None if ok else _vec_witness(what, r, exp))


DEF_COLS = ["defocus1", "defocus2", "astigmatism", "phase_shift", "defocus_mean"]


def _defocus_compare(result, exp, rel):
    if not isinstance(result, pd.DataFrame):
        return {"what": "not a DataFrame"}
    if sorted(map(str, result.columns)) != sorted(DEF_COLS):
        return {"what": "columns", "got": [str(c) for c in result.columns], "expected": DEF_COLS}
    if len(result) != len(exp):
        return {"what": "row count", "got": len(result), "file": len(exp)}
    for j, c in enumerate(DEF_COLS):
        try:
            g = result[c].to_numpy(dtype=float)
        except (TypeError, ValueError):
            return {"what": "non-numeric column", "column": c}
        bad = ~(np.abs(g - exp[:, j]) <= rel * np.abs(exp[:, j]) + 1e-12)
        if bad.any():
            i = int(np.argmax(bad))
            return {"what": "value", "column": c, "row": i, "got": float(g[i]), "expected": float(exp[i, j]),
                    "ratio": float(g[i] / exp[i, j]) if exp[i, j] else None, "n_wrong_rows": int(bad.sum())}
    return None


def _gctf_post(ctx, A, old, result):
    exp = O.read_gctf(A["file_path"])
    if exp is None:
        ctx.ood("gctf_read")
        return
    w = _defocus_compare(result, exp, 1e-9)
    ctx.check("gctf_read", w is None, w)


def _ctffind_post(ctx, A, old, result):
    exp = O.read_ctffind4(A["file_path"])
    if exp is None:
        ctx.ood("ctffind4_read")
        return
    w = _defocus_compare(result, exp, 1e-6)
    ctx.check("ctffind4_read", w is None, w)


def _dl_post(ctx, A, old, result):
    arg = A["input_data"]
    if isinstance(arg, pd.DataFrame):
        ok = result is arg or (isinstance(result, pd.DataFrame) and result.equals(arg))
        ctx.check("defocus_load", ok, None if ok else {"what": "a defocus table was not returned as given"})
    elif isinstance(arg, np.ndarray) and arg.ndim == 2 and arg.shape[1] == 5 and arg.dtype.kind in "fiu":
        ok = isinstance(result, pd.DataFrame) and [str(c) for c in result.columns] == DEF_COLS and result.shape == arg.shape and bool(np.all(result.to_numpy() == arg))
        ctx.check("defocus_load", ok, None if ok else {"what": "Nx5 array not returned as the 5 named defocus columns", "columns": [str(c) for c in getattr(result, "columns", [])]})
    else:
        ctx.ood("defocus_load")          # files are judged by gctf_read / ctffind4_read


# ================================================================================================
# wedge-list call monitors (expectation computed from the arguments BEFORE the call)
# ================================================================================================
def _sg_app(A):
    try:
        A["__exp"] = O.expected_single(A["tomo_id"], A["tomo_dim"], A["pixel_size"], A["tlt_file"], A["z_shift"], A["ctf_file"],
                                       A["ctf_file_type"], A["dose_file"], A["voltage"], A["amp_contrast"], A["cs"])
    except O.OutOfDomain:
        return False
    return A["output_file"] is None or isinstance(A["output_file"], str)


def _pop_exp(A):
    return A.pop("__exp")


def _sg_post(ctx, A, exp, result):
    w = O.compare_frame(result, exp, dropped_absent=bool(A["drop_nan_columns"]))
    if w is None and A["output_file"] is not None:
        extra = () if A["drop_nan_columns"] else tuple(c for c in ("defocus", "exposure") if c not in exp)
        w = O.compare_star(A["output_file"], result, exp, extra_ok=extra)
    ctx.check("wedge_sg", w is None, w)


def _sgb_app(A):
    try:
        tomos, parts = O.expected_batch(A)
        A["__exp"] = (tomos, O.concat_expected(parts))
    except O.OutOfDomain:
        return False
    return A["output_file"] is None or isinstance(A["output_file"], str)


def _sgb_post(ctx, A, old, result):
    tomos, exp = old
    w = O.compare_frame(result, exp)
    if w is None and A["output_file"] is not None:
        w = O.compare_star(A["output_file"], result, exp)
    if w is not None:
        w["tomograms"] = tomos
    ctx.check("wedge_sg_batch", w is None, w)


def _em_app(A):
    try:
        tomos, _ = O.arg_tomograms(A["tomo_list"])
        rows = []
        for t in tomos:
            tl, kind = O.arg_tilts(O.expand_format(A["tlt_file_format"], t))
            tl = np.asarray(tl, dtype=float).astype(np.float32)
            if tl.ndim != 1 or not np.all(np.isfinite(tl)):
                return False
            rows.append([float(t), float(tl.min()), float(tl.max())])
        A["__exp"] = np.array(rows)
    except O.OutOfDomain:
        return False
    return A["output_file"] is None or isinstance(A["output_file"], str)


def _em_file_witness(path, rows):
    """EM bytes: 1 x T x 3 float32 holding the rows (tomogram, min, max)"""
    em = files.parse_em(path)
    T = len(rows)
    if "error" in em:
        return {"what": "EM file unreadable", "error": em["error"]}
    if em["machine"] != 6 or em["code"] != 5 or tuple(em["dims"]) != (3, T, 1) or em["nbytes"] != 512 + 12 * T:
        return {"what": "EM header", "code": em["code"], "dims": em["dims"], "nbytes": em["nbytes"], "expected_dims": (3, T, 1)}
    got = em["data"][:, :, 0].T.astype(np.float64)
    e32 = np.asarray(rows, dtype=np.float64).astype(np.float32).astype(np.float64)
    bad = ~(np.abs(got - e32) <= 2 * np.spacing(np.abs(e32).astype(np.float32)))
    if bad.any():
        i, k = np.argwhere(bad)[0]
        return {"what": "EM value", "row": int(i), "field": ["tomogram", "min", "max"][int(k)], "file": float(got[i, k]), "expected": float(e32[i, k])}
    return None


def _frame3(result, names):
    if not isinstance(result, pd.DataFrame) or [str(c) for c in result.columns] != names:
        return None
    try:
        return result.to_numpy(dtype=float)
    except (TypeError, ValueError):
        return None


def _em_post(ctx, A, exp, result):
    got = _frame3(result, ["tomo_num", "min_angle", "max_angle"])
    w = None
    if got is None:
        w = {"what": "result is not a numeric table tomo_num/min_angle/max_angle", "columns": [str(c) for c in getattr(result, "columns", [])]}
    elif got.shape != exp.shape or not np.all(np.abs(got - exp) <= 1e-6 * np.maximum(1, np.abs(exp))):
        bad = np.argwhere(~(np.abs(got - exp) <= 1e-6 * np.maximum(1, np.abs(exp)))) if got.shape == exp.shape else [[0, 0]]
        i = int(bad[0][0])
        w = {"what": "min/max tilt per tomogram", "row": i, "got": got[i] if i < len(got) else None, "expected": exp[i], "shape": list(got.shape)}
    elif A["output_file"] is not None:
        w = _em_file_witness(A["output_file"], exp)
    ctx.check("wedge_em_batch", w is None, w)


def _s2e_app(A):
    src = A["input_path"]
    mm = None
    if isinstance(src, str):
        mm = O.read_wedge_star_minmax(src)
    elif isinstance(src, pd.DataFrame) and "tomo_num" in src.columns and "tilt_angle" in src.columns and len(src):
        try:
            t = src["tomo_num"].to_numpy(dtype=float)
            a = src["tilt_angle"].to_numpy(dtype=float)
        except (TypeError, ValueError):
            return False
        mm = {}
        for x, y in zip(t, a):
            lo, hi = mm.get(x, (y, y))
            mm[x] = (min(lo, y), max(hi, y))
    if not mm or not all(np.isfinite(v).all() for v in mm.values()):
        return False
    A["__exp"] = mm
    return True


def _s2e_post(ctx, A, mm, result):
    got = _frame3(result, ["tomo_id", "min_tilt_angle", "max_tilt_angle"])
    w = None
    if got is None:
        w = {"what": "result is not a numeric table tomo_id/min_tilt_angle/max_tilt_angle", "columns": [str(c) for c in getattr(result, "columns", [])]}
    elif sorted(got[:, 0].tolist()) != sorted(mm):
        w = {"what": "not one row per tomogram", "got": got[:, 0].tolist(), "expected": sorted(mm)}
    else:
        for r in got:
            lo, hi = mm[float(r[0])]
            if abs(r[1] - lo) > 1e-6 * max(1, abs(lo)) or abs(r[2] - hi) > 1e-6 * max(1, abs(hi)):
                w = {"what": "min/max tilt", "tomogram": float(r[0]), "got": [float(r[1]), float(r[2])], "expected": [lo, hi]}
                break
    if w is None and A["write_out"]:
        w = _em_file_witness(A["output_path"], got)
    ctx.check("wedge_sg_to_em", w is None, w)


# ================================================================================================
def setup(ctx):
    from cryocat import ioutils, mdoc, wedgeutils
    ctx.md, ctx.io, ctx.wu = mdoc, ioutils, wedgeutils
    M = mdoc.Mdoc
    f_w = monitors.wrap(ctx, M, "write", "mdoc_write", _w_post, _w_app, _w_snap)
    f_r = monitors.wrap(ctx, M, "_read_mdoc", "mdoc_read", _r_post)
    f_s = monitors.wrap(ctx, M, "sort_by_tilt", "sort_by_tilt", _s_post, _s_app, _s_snap)
    f_rm = monitors.wrap(ctx, M, "remove_images", "remove_images", _rm_post, _rm_app, _rm_snap)
    f_k = monitors.wrap(ctx, M, "kept_images", "kept_images", _k_post, _k_app)
    f_ovl = monitors.wrap(ctx, ioutils, "one_value_per_line_read", "one_value_per_line_read", _ovl_post)
    f_tlt = monitors.wrap(ctx, ioutils, "tlt_load", "tlt_load", _tlt_post)
    f_dose = monitors.wrap(ctx, ioutils, "total_dose_load", "total_dose_load", _dose_post)
    f_g = monitors.wrap(ctx, ioutils, "gctf_read", "gctf_read", _gctf_post)
    f_c = monitors.wrap(ctx, ioutils, "ctffind4_read", "ctffind4_read", _ctffind_post)
    f_dl = monitors.wrap(ctx, ioutils, "defocus_load", "defocus_load", _dl_post)
    f_sg = monitors.wrap(ctx, wedgeutils, "create_wedge_list_sg", "wedge_sg", _sg_post, _sg_app, _pop_exp)
    f_sgb = monitors.wrap(ctx, wedgeutils, "create_wedge_list_sg_batch", "wedge_sg_batch", _sgb_post, _sgb_app, _pop_exp)
    f_em = monitors.wrap(ctx, wedgeutils, "create_wedge_list_em_batch", "wedge_em_batch", _em_post, _em_app, _pop_exp)
    f_s2e = monitors.wrap(ctx, wedgeutils, "wedge_list_sg_to_em", "wedge_sg_to_em", _s2e_post, _s2e_app, _pop_exp)
    ctx.declare("caller_arrays_unchanged", "index_array_unchanged", "mdoc_roundtrip", "mdoc_history", "loader_truth", "defocus_truth", "wedge_truth", "wedge_em_consistent", "get_tilt_angles")
    monitors.trace(ctx, [
        ("Mdoc._read_mdoc", f_r, {"zvalue": 'section_id = "ZValue"', "frameset": 'section_id = "FrameSet"'}),
        ("Mdoc._parse_header", M._parse_header, {"title": "titles.append(title)", "key_value": "project_info[key.strip()]"}),
        ("Mdoc._parse_images", M._parse_images, {"section_closed": ("sections.append(section)", 0), "section_line": "img[section_id] = line.split"}),
        ("Mdoc._format_value", M._format_value, {"int": "formatted = int(", "float": ("formatted = float(", 0), "float_exponent": ("formatted = float(", 1), "text": "formatted = value.strip()"}),
        ("Mdoc.write", f_w, {"default_path": "out_path = self.file_path", "refuse_overwrite": "raise FileExistsError", "section_written": 'f.write("[{} = {}]'}),
        ("Mdoc.sort_by_tilt", f_s, {"reset_z": 'self.imgs["ZValue"] = range'}),
        ("Mdoc.remove_images", f_rm, {"of_kept": "kept_indices = self.kept_images().index", "of_all": "kept_indices = self.imgs.index"}),
        ("Mdoc.kept_images", f_k),
        ("ioutils.one_value_per_line_read", f_ovl),
        ("ioutils.tlt_load", f_tlt, {"array": "return input_tlt", "list": "return np.asarray(input_tlt)", "mdoc": "tilt_data = mdoc.Mdoc(input_tlt)",
                                     "file": "tilts = one_value_per_line_read(input_tlt)", "sorted": "tilts = np.sort(tilts)"}),
        ("ioutils.total_dose_load", f_dose, {"array": "return input_dose", "list": "return np.asarray(input_dose)", "mdoc_sorted": "mdoc_file.sort_by_tilt(",
                                             "mdoc_prior": "total_dose = image_dose + prior_dose", "mdoc_datetime": 'sorted_df = mdoc_file.imgs.sort_values("DateTime")',
                                             "file": "total_dose = one_value_per_line_read(input_dose)"}),
        ("ioutils.gctf_read", f_g, {"phase_shift": '"rlnDefocusAngle", "rlnPhaseShift"]]', "no_phase_shift": 'converted_gctf["rlnPhaseShift"] = 0.0'}),
        ("ioutils.ctffind4_read", f_c),
        ("ioutils.defocus_load", f_dl, {"frame": "defocus_df = input_data", "gctf": "defocus_df = gctf_read(", "ctffind4": "defocus_df = ctffind4_read(",
                                                        "array": "defocus_df = pd.DataFrame(input_data, columns=df_columns)"}),
        ("wedgeutils.create_wedge_list_sg", f_sg, {"defocus": "ctf_df = ioutils.defocus_load(", "dose": "dose = ioutils.total_dose_load(",
                                                   "drop_nan": 'wedge_list_df = wedge_list_df.dropna(axis=1, how="all")', "written": "starfileio.Starfile.write("}),
        ("wedgeutils.create_wedge_list_sg_batch", f_sgb, {"dims_shared": "repeated_values = np.repeat(tomo_dimensions[", "zshift_shared": 'repeated_values = np.repeat(z_shift_df["z_shift"]',
                                                          "dims_per_file": "t_dim = ioutils.fileformat_replace_pattern(", "dims_lookup": "t_dim = tomo_dimensions.loc[",
                                                          "zshift_per_file": "z_shift_input = ioutils.fileformat_replace_pattern(", "zshift_lookup": "z_shift_input = z_shift_df.loc[",
                                                          "ctf_format": "ctf_file = ioutils.fileformat_replace_pattern(", "dose_format": "dose_file = ioutils.fileformat_replace_pattern(",
                                                          "written": "starfileio.Starfile.write("}),
        ("wedgeutils.create_wedge_list_em_batch", f_em, {"written": "emfile.write("}),
        ("wedgeutils.wedge_list_sg_to_em", f_s2e, {"written": "emfile.write("}),
        ("ioutils.fileformat_replace_pattern", ioutils.fileformat_replace_pattern, {"replaced": "filename_format = filename_format.replace(pattern, padded_number)"}),
    ])


# ================================================================================================
# generators
# ================================================================================================
def _n_images(rng, cls, tier):
    if cls == "mdoc_n1":
        return 1
    if cls == "mdoc_large":        # block-boundary sizes 2**6 - 1, 2**6, 2**6 + 1 and the largest size of the quantifier are planted
        return int(rng.choice([63, 64, 65, 79, 80])) if rng.random() < 0.6 else int(rng.integers(41, 81))
    hi = 25 if tier == "quick" else 61
    n = int(rng.choice([2, 3, 5, 9, 21, 41])) if rng.random() < 0.4 else int(rng.integers(1, hi))
    return n


def _model_apply(model, op):
    """model = list of dict(z, tilt, removed) in table order; op as generated -> new model (pure)"""
    model = [dict(e) for e in model]
    if op["op"] == "sort":
        model.sort(key=lambda e: e["tilt"])            # Python's sort is stable; history classes have no tilt ties
        if op["reset"]:
            for k, e in enumerate(model):
                e["z"] = k
    elif op["op"] == "remove":
        pool = [k for k, e in enumerate(model) if not e["removed"]] if op["kept_only"] else list(range(len(model)))
        for x in op["indices"]:
            model[pool[x]]["removed"] = True
    return model


def _gen_subset(rng, k, style=None):
    """index subset of range(k)"""
    if k == 0:
        return []
    style = style or str(rng.choice(["one", "few", "half", "all", "empty", "first_last", "dups"], p=[0.2, 0.3, 0.15, 0.08, 0.07, 0.1, 0.1]))
    if style == "one":
        return [int(rng.integers(0, k))]
    if style == "few":
        return [int(x) for x in rng.choice(k, int(rng.integers(1, min(k, 5) + 1)), replace=False)]
    if style == "half":
        return [int(x) for x in rng.choice(k, max(1, k // 2), replace=False)]
    if style == "all":
        return [int(x) for x in rng.permutation(k)]
    if style == "empty":
        return []
    if style == "first_last":
        return sorted({0, k - 1})
    x = int(rng.integers(0, k))
    return [x, int(rng.integers(0, k)), x]


def gen_mdoc_case(ctx, rng, i, cls):
    n = _n_images(rng, cls, ctx.tier)
    sid = "FrameSet" if cls == "mdoc_frameset" else "ZValue"
    ocls = {"mdoc_plain": "plain", "mdoc_crlf": "crlf", "mdoc_values": "values", "mdoc_expfloat": "expfloat", "mdoc_unicode": "unicode"}.get(cls, str(rng.choice(["plain", "values", "crlf"])))
    ties = cls == "mdoc_sort" and rng.random() < 0.3
    with_prior = True if cls in ("mdoc_module_funcs",) else None
    st = O.gen_mdoc(rng, n, cls=ocls, section_id=sid, ties=ties, with_prior=with_prior)
    if sid == "FrameSet":
        st["sections"] = [dict(s, id=str(k)) for k, s in enumerate(st["sections"])] if rng.random() < 0.5 else st["sections"]
    model = [{"z": int(s["id"]), "tilt": float(dict(s["items"])["TiltAngle"]), "removed": False} for s in st["sections"]]
    ops = []

    def op_sort():
        return {"op": "sort", "reset": bool(rng.random() < 0.5) and sid == "ZValue"}

    def op_remove(m):
        kept_only = bool(rng.random() < 0.7)
        k = sum(1 for e in m if not e["removed"]) if kept_only else len(m)
        return {"op": "remove", "indices": _gen_subset(rng, k), "kept_only": kept_only, "as": str(rng.choice(["list", "array", "range"]))}

    def push(op):
        nonlocal model
        ops.append(op)
        model = _model_apply(model, op)

    if cls == "mdoc_sort":
        push(op_sort())
        if rng.random() < 0.3 and not ties:
            push(op_sort())
    elif cls == "mdoc_remove":
        push(op_remove(model))
        if rng.random() < 0.4:
            push(op_remove(model))
    elif cls in ("mdoc_history", "mdoc_odd_index", "mdoc_frameset", "mdoc_large", "mdoc_unicode"):
        for _ in range(int(rng.integers(1, 5))):
            push(op_sort() if rng.random() < 0.4 else op_remove(model))
    elif cls == "mdoc_module_funcs":
        which = str(rng.choice(["remove_images", "sort_mdoc_by_tilt_angles", "get_tilt_angles"]))
        if which == "remove_images":
            k = len(model)
            sub = _gen_subset(rng, k, str(rng.choice(["one", "few", "half", "first_last"])))
            sub = sorted(set(sub))
            push({"op": "remove", "indices": sub, "kept_only": True, "as": "module", "from1": bool(rng.random() < 0.6),
                  "idx_input": str(rng.choice(["file", "list", "array"]))})
        elif which == "sort_mdoc_by_tilt_angles":
            push(dict(op_sort(), **{"as": "module"}))
        else:
            ops.append({"op": "get_tilt_angles"})
    elif rng.random() < 0.5:
        push(op_sort() if rng.random() < 0.5 else op_remove(model))
    write = {"removed": bool(rng.random() < 0.2), "default_path": bool(cls not in ("mdoc_odd_index", "mdoc_module_funcs") and rng.random() < 0.15),
             "again": bool(rng.random() < 0.35)}
    index_kind = "range"
    if cls == "mdoc_odd_index":
        index_kind = str(rng.choice(["permuted", "gaps", "reversed", "strings"]))
    hostile = any(v.startswith("-") or not v.replace(".", "", 1).isdigit() for s in st["sections"][:1] for k, v in s["items"] if k != "TiltAngle")
    summ = {"images": n, "section": sid, "header": st["header"][:4], "titles": len(st["titles"]), "keys": [k for k, _ in st["sections"][0]["items"]][:8],
            "layout": st["layout"], "scheme": st["scheme"], "ops": ops, "write": write, "index": index_kind,
            "first": st["sections"][0]["items"][:4]}
    return {"i": i, "cls": cls, "kind": "mdoc", "st": st, "ops": ops, "model": model, "write": write, "index_kind": index_kind,
            "nt": n >= 2 and (bool(ops) or hostile), "summary": summ}


def _asc_values(rng, n, lo=-70.0, hi=70.0, dec=2, repeats=0.0):
    """ascending numbers; with probability `repeats` 1..3 of them are exact repeats of their left neighbour (a tilt taken twice)"""
    if n == 1:
        return np.round(rng.uniform(lo, hi, 1), dec)
    step = (hi - lo) / n
    v = lo + step * np.arange(n) + rng.uniform(0.05 * step, 0.9 * step, n)
    v = np.round(v, dec)
    v = v if np.all(np.diff(v) > 0) else np.round(lo + step * np.arange(n), dec)
    if rng.random() < repeats:
        for j in rng.choice(np.arange(1, n), min(n - 1, int(rng.integers(1, 4))), replace=False):
            v[j] = v[j - 1]
        v = np.sort(v)
    return v


def _n_rows(rng, tier):
    if rng.random() < 0.35:
        return int(rng.choice([1, 2, 3, 41, 63, 64, 65, 79, 80]))
    return int(rng.integers(1, 30 if tier == "quick" else 81))


def gen_loader_case(ctx, rng, i, cls):
    tier = ctx.tier
    if cls in ("tlt_files", "dose_files"):
        filesl = []
        for k in range(3):
            n = _n_rows(rng, tier)
            style = O.NUM_STYLES[(i // len(CLASSES) * 3 + k) % len(O.NUM_STYLES)]
            if cls == "tlt_files":
                vals = _asc_values(rng, n, dec=int(rng.choice([1, 2, 2, 3])), repeats=0.45)
            else:
                vals = np.round(rng.uniform(0, 150, n), 3)
                if rng.random() < 0.4:     # numbers with unusual text forms / at representability boundaries
                    pool = np.array([3e-06, 1e-07, 100001.0, 100002.0, 16777217.0, 0.5, 5.0, 1e16, 3.4028234e38, 1.5e-42])
                    m = rng.random(n) < 0.3
                    m[int(rng.integers(0, n))] = True
                    vals = np.where(m, rng.choice(pool, n), vals)
            filesl.append({"n": n, "style": style, "values": [float(x) for x in vals], "sub": int(rng.integers(0, 1 << 30))})
        summ = {"files": [{"n": f["n"], "style": f["style"], "head": f["values"][:3]} for f in filesl]}
        return {"i": i, "cls": cls, "kind": "numbers", "files": filesl, "nt": any(f["n"] >= 2 for f in filesl), "summary": summ}
    if cls == "dose_mdoc":
        n = _n_rows(rng, tier)
        st = O.gen_mdoc(rng, n, cls=str(rng.choice(["plain", "crlf"])), with_prior=bool(rng.random() < 0.85), ties=bool(rng.random() < 0.35),
                        prior_mode=str(rng.choice(["cumulative", "zeros", "constant"], p=[0.45, 0.4, 0.15])))
        summ = {"images": n, "tilt_repeats": n - len(set(st["tilts"])), "scheme": st["scheme"], "prior": st["with_prior"], "layout": st["layout"], "first": st["sections"][0]["items"][:4]}
        return {"i": i, "cls": cls, "kind": "dose_mdoc", "st": st, "nt": n >= 2, "summary": summ}
    n = _n_rows(rng, tier)
    U = np.round(rng.uniform(5000, 80000, n), 6)
    V = np.round(U - rng.uniform(-3000, 3000, n), 6)
    if rng.random() < 0.15:
        U, V = -U, -V                                        # overfocus sign convention
    ang = np.round(rng.uniform(-90, 90, n), 6)
    has_phase = cls == "ctffind4" or bool(rng.random() < 0.5)
    phase = np.round(rng.uniform(0, 3.1, n) * (rng.random() < 0.5), 6)
    if cls == "gctf":
        style = ["plain", "all_ints", "canonical", "ints", "all_ints", "crlf", "comments"][(i // len(CLASSES)) % 7]
    else:
        style = ["plain", "whole", "nohdr", "crlf", "lead_ws", "tabs", "whole", "cols", "short", "no_final_nl", "varhdr"][(i // len(CLASSES)) % 11]
    if style in ("all_ints", "whole"):     # every number of the file is a whole number (integer-typed columns after parsing)
        U, V, ang, phase = np.round(U), np.round(V), np.round(ang), np.round(phase)
    elif style == "ints":                  # mixed: whole defocus, fractional angles
        U, V = np.round(U), np.round(V)
    summ = {"rows": n, "style": style, "phase": has_phase, "U0": float(U[0]), "V0": float(V[0])}
    return {"i": i, "cls": cls, "kind": "defocus", "U": U, "V": V, "ang": ang, "phase": phase if has_phase else None, "style": style,
            "nt": n >= 2, "summary": summ}


TLT_FORMATS = ["TS_$X/$X.tlt", "tilts/ts$X.rawtlt", "$X.tlt", "TS_$X/TS_$X_ali.tlt"]


def gen_wedge_case(ctx, rng, i, cls):
    tier = ctx.tier
    T = int(rng.integers(1, 6))
    if cls in ("wedge_batch_tables", "wedge_int_zshift") and rng.random() < 0.8:
        T = max(T, 2)
    if cls == "wedge_single":
        T = 1
    pad = int(rng.choice([2, 3, 3, 4]))
    ids = rng.choice(np.arange(1, 10 ** pad), T, replace=False)
    if rng.random() < 0.3:
        ids[0] = 10 ** pad - 1 - int(rng.integers(0, 3)) if (10 ** pad - 1) not in ids[1:] else ids[0]
    if rng.random() < 0.2:                 # adjacent tomogram numbers just above 1e5 (np.isclose with default rtol would merge them)
        pad = int(rng.choice([6, 7]))
        ids = (100000 + int(rng.integers(0, 3)) + np.arange(T))[rng.permutation(T)]
    ids = [int(x) for x in dict.fromkeys(int(x) for x in ids)]
    T = len(ids)
    tlt_kind = "mdoc" if cls == "wedge_batch_mdoc" else ("mdoc" if cls == "wedge_single" and rng.random() < 0.2 else "tlt")
    ctf_kind = str(rng.choice(["none", "gctf", "ctffind4"], p=[0.25, 0.4, 0.35]))
    dose_kind = str(rng.choice(["none", "txt"], p=[0.3, 0.7]))
    if tlt_kind == "mdoc":
        dose_kind = str(rng.choice(["mdoc", "mdoc", "txt", "none"]))
    if cls == "wedge_em":
        ctf_kind, dose_kind = "none", str(rng.choice(["none", "txt"]))
    dim_kind = str(rng.choice(["list3", "array3", "file_13", "array_n4", "frame_n4", "file_n4", "per_file"]))
    z_kind = str(rng.choice(["float", "file_11", "list1", "array_n2", "frame_n2", "file_n2", "list_n2", "per_file"]))
    if cls == "wedge_batch_files":
        dim_kind = str(rng.choice(["per_file", "file_n4", "file_13"]))
        z_kind = str(rng.choice(["per_file", "file_n2", "file_11"]))
    if cls == "wedge_batch_tables":
        dim_kind = str(rng.choice(["array_n4", "frame_n4", "array_n4_int"]))
        z_kind = str(rng.choice(["array_n2", "frame_n2", "list_n2"]))
    if cls == "wedge_int_zshift":
        z_kind = str(rng.choice(["int", "int_array_n2", "int_list_n2"]))
    if cls == "wedge_single":
        dim_kind = str(rng.choice(["list3", "array3", "file_13", "frame_13", "array_13"]))
        z_kind = str(rng.choice(["float", "int", "file_11", "list1", "array1", "frame_11", "npfloat"]))
    shared_dims = dim_kind in ("list3", "array3", "file_13", "frame_13", "array_13")
    shared_z = z_kind in ("float", "int", "file_11", "list1", "array1", "frame_11", "npfloat")
    d0 = [float(x) for x in rng.integers(50, 2000, 3)]
    z0 = float(np.round(rng.uniform(-100, 100), 2))
    int_z = z_kind.startswith("int")
    if int_z:
        z0 = float(round(z0))
    tomos = []
    for t in ids:
        n = _n_rows(rng, tier) if T <= 2 else int(rng.integers(1, 16 if tier == "quick" else 41))
        tilts = _asc_values(rng, n, dec=2, repeats=0.35 if tlt_kind == "tlt" else 0.0)
        U = np.round(rng.uniform(5000, 80000, n), 2)
        V = np.round(U - rng.uniform(-3000, 3000, n), 2)
        dose_step = float(np.round(rng.uniform(0.5, 4), 2))
        order = rng.permutation(n)
        dose = np.round(dose_step * (np.argsort(order) + 1), 4)
        z = z0 if shared_z else float(np.round(rng.uniform(-100, 100), 2))
        if int_z:
            z = float(round(z))
        tomos.append({"id": t, "tilts": [float(x) for x in tilts], "U": [float(x) for x in U], "V": [float(x) for x in V],
                      "ang": [float(x) for x in np.round(rng.uniform(-90, 90, n), 4)], "phase": [float(x) for x in np.round(rng.uniform(0, 1, n), 4)],
                      "dose": [float(x) for x in dose], "dims": d0 if shared_dims else [float(x) for x in rng.integers(50, 2000, 3)], "z": z,
                      "sub": int(rng.integers(0, 1 << 30))})
    if tlt_kind == "mdoc" and rng.random() < 0.45:     # PriorRecordDose 0 in every image: dose = exposure for every tilt
        for t in tomos:
            t["dose"] = [min(t["dose"])] * len(t["dose"])
    defaults = bool(rng.random() < 0.25)
    consts = {"pixel_size": float(np.round(rng.uniform(0.5, 15), 3)), "voltage": 300.0 if defaults else float(rng.choice([200.0, 300.0, 120.0])),
              "amp_contrast": 0.07 if defaults else float(np.round(rng.uniform(0.05, 0.15), 3)), "cs": 2.7 if defaults else float(rng.choice([2.7, 2.0, 0.01, 2.26])),
              "explicit": [] if defaults else ["voltage", "amp_contrast", "cs"], "zero_form": "float0"}
    if rng.random() < 0.45:                # explicit zeros (Cs corrector, phase-object convention ...) alone and combined, in several numeric types
        names = ["voltage", "amp_contrast", "cs"]
        zero = [names[j] for j in range(3) if rng.random() < 0.5] or [str(rng.choice(["cs", "amp_contrast", "voltage"], p=[0.5, 0.3, 0.2]))]
        for k in zero:
            consts[k] = 0.0
        consts["zero_form"] = str(rng.choice(["int0", "float0", "npfloat0", "negzero", "npint0"]))
        if rng.random() < 0.5:             # only the zeros are passed, the other constants keep their defaults
            consts["explicit"] = zero
            for k, d in (("voltage", 300.0), ("amp_contrast", 0.07), ("cs", 2.7)):
                if k not in zero:
                    consts[k] = d
        else:
            consts["explicit"] = names
            if defaults:
                consts.update({k: d for k, d in (("voltage", 200.0), ("amp_contrast", 0.1), ("cs", 2.26)) if k not in zero})
    ctf_whole = bool(rng.random() < 0.35)  # defocus files holding whole numbers only
    if ctf_whole:
        for t in tomos:
            for k in ("U", "V", "ang", "phase"):
                t[k] = [float(round(x)) for x in t[k]]
    case = {"i": i, "cls": cls, "kind": "wedge", "tomos": tomos, "pad": pad, "tlt_kind": tlt_kind, "ctf_kind": ctf_kind, "dose_kind": dose_kind,
            "dim_kind": dim_kind, "z_kind": z_kind, "list_kind": str(rng.choice(["array_int", "array_float", "list", "file"])),
            "tlt_fmt": str(rng.choice(TLT_FORMATS)), "consts": consts, "ctf_whole": ctf_whole, "write": bool(rng.random() < 0.6), "list_sorted": bool(rng.random() < 0.7),
            "single_inputs": {"tlt": str(rng.choice(["file", "array", "list"])), "ctf": str(rng.choice(["file", "frame", "frame_odd", "array"])),
                              "dose": str(rng.choice(["file", "array", "list"])), "drop": bool(rng.random() < 0.7)},
            "em_source": str(rng.choice(["batch_star", "own_star", "own_star_shuffled", "frame", "frame_shuffled"], p=[0.15, 0.1, 0.45, 0.1, 0.2]))}
    if case["list_sorted"] or case["list_kind"] == "file":
        case["tomos"] = sorted(tomos, key=lambda d: d["id"])
    case["nt"] = sum(len(t["tilts"]) for t in tomos) >= 2 and (T >= 2 or ctf_kind != "none" or dose_kind != "none")
    case["summary"] = {"tomograms": [(t["id"], len(t["tilts"])) for t in case["tomos"]], "pad": pad, "tlt": tlt_kind, "ctf": ctf_kind, "dose": dose_kind,
                       "dims": dim_kind, "z": z_kind, "ctf_whole": ctf_whole, "list": case["list_kind"], "fmt": case["tlt_fmt"], "consts": consts, "write": case["write"],
                       "single": case["single_inputs"] if cls == "wedge_single" else None, "em": case["em_source"] if cls == "wedge_em" else None,
                       "t0": tomos[0]["tilts"][:3], "z0": tomos[0]["z"], "d0": tomos[0]["dims"]}
    return case


def gen_reuse_case(ctx, rng, i, cls):
    """one index ndarray reused for 2..3 successive removals on different mdocs (one list of bad tilts for several files)"""
    k = int(rng.integers(2, 4))
    sts, models = [], []
    for _ in range(k):
        n = int(rng.integers(2, 16 if ctx.tier == "quick" else 41))
        st = O.gen_mdoc(rng, n, cls=str(rng.choice(["plain", "crlf", "values"])))
        sts.append(st)
    nmin = min(len(st["sections"]) for st in sts)
    sub = sorted(set(_gen_subset(rng, nmin, str(rng.choice(["one", "few", "half", "first_last"])))))
    # 'mutate': the caller overwrites the SAME array in place with other indices between the calls; every call is judged against
    # the values the array holds at that moment
    variant = "mutate" if rng.random() < 0.45 else "same"
    subs = [sub] + [sorted(int(x) for x in rng.choice(nmin, len(sub), replace=False)) if variant == "mutate" else sub for _ in range(k - 1)]
    op = {"op": "remove", "indices": sub, "kept_only": True}
    for st, sb in zip(sts, subs):
        model = [{"z": int(s["id"]), "tilt": float(dict(s["items"])["TiltAngle"]), "removed": False} for s in st["sections"]]
        models.append(_model_apply(model, dict(op, indices=sb)))
    via = "module" if rng.random() < 0.75 else "method"
    from1 = bool(rng.random() < 0.75) and via == "module"
    dtype = str(rng.choice(["int64", "int32"]))
    summ = {"mdocs": [len(st["sections"]) for st in sts], "indices": subs, "variant": variant, "via": via, "numbered_from_1": from1, "dtype": dtype,
            "first": sts[0]["sections"][0]["items"][:3], "layout": sts[0]["layout"]}
    return {"i": i, "cls": cls, "kind": "mdoc_reuse", "sts": sts, "models": models, "indices": sub, "subs": subs, "variant": variant, "via": via, "from1": from1, "dtype": dtype,
            "op": op, "nt": True, "summary": summ}


def run_reuse(ctx, case):
    md = ctx.md
    base = _base(ctx, case)
    arr = np.array([x + (1 if case["from1"] else 0) for x in case["indices"]], dtype=case["dtype"])
    for j, (st, model) in enumerate(zip(case["sts"], case["models"])):
        if j and case["variant"] == "mutate":
            arr[:] = [x + (1 if case["from1"] else 0) for x in case["subs"][j]]        # in place: same object, new numbers
        orig = arr.copy()                  # every call is judged against the numbers the array holds when the call is made
        src = os.path.join(base, "in_%d.mdoc" % j)
        out = os.path.join(base, "out_%d.mdoc" % j)
        _write_text(src, O.render_mdoc(st))
        direct_read(ctx, src)
        if case["via"] == "module":
            ok, m = ctx.call("mdoc.remove_images(reused index array)", md.remove_images, src, arr, numbered_from_1=case["from1"], output_file=out)
        else:
            ok, m = ctx.call("Mdoc(path)", md.Mdoc, src)
            if ok:
                ok, _ = ctx.call("remove_images(reused index array)", m.remove_images, arr)
            if ok:
                ok, _ = ctx.call("Mdoc.write", m.write, out)
        same = arr.shape == orig.shape and arr.dtype == orig.dtype and bool(np.all(arr == orig))
        ctx.check("index_array_unchanged", same, None if same else {"what": "the caller's index array was modified", "call": j + 1, "before": orig.tolist(), "after": arr.tolist(),
                                                                     "numbered_from_1": case["from1"], "via": case["via"]})
        if not ok:
            continue
        check_history(ctx, {"st": st, "model": model, "ops": [dict(case["op"], call=j + 1, original_indices=orig.tolist(), numbered_from_1=case["from1"])]}, out, False)
        check_roundtrip(ctx, m, out, False)


def gen(ctx, i, cls):
    rng = ctx.rng(i)
    if cls == "mdoc_reuse_indices":
        return gen_reuse_case(ctx, rng, i, cls)
    if cls.startswith("mdoc_"):
        return gen_mdoc_case(ctx, rng, i, cls)
    if cls.startswith("wedge_"):
        return gen_wedge_case(ctx, rng, i, cls)
    return gen_loader_case(ctx, rng, i, cls)


def nontrivial(case):
    return bool(case["nt"])


# ================================================================================================
# drivers
# ================================================================================================
BASE_NAMES = ["c%d", "c%d tilt series", "c%d_[a]", "c%d_série α", "c%d_x*y?", "c%d/sub dir/ts"]


def _base(ctx, case):
    """scratch directory of a case; its name carries spaces, [ ] * ? and non-ASCII characters and sub-directories in turn"""
    return os.path.join(ctx.scratch, BASE_NAMES[(case["i"] // len(CLASSES)) % len(BASE_NAMES)] % case["i"])


def _write_text(path, text):
    os.makedirs(os.path.dirname(path), exist_ok=True)
    with open(path, "w", newline="", encoding="utf-8") as f:
        f.write(text)


def _call_keyed(ctx, label, classify, fn, *a, **k):
    """like ctx.call, but the mechanism key of a failure is derived from the exception"""
    try:
        r = fn(*a, **k)
    except Exception as e:
        import traceback
        tb = traceback.format_exc().strip().splitlines()
        ctx.check("completes:" + label, False, {"exception": type(e).__name__ + ": " + str(e)[:300], "where": tb[-6:]}, key=classify(e))
        return False, None
    ctx.check("completes:" + label, True)
    return True, r


def _table_diffs(got, exp):
    """lists of {col: cell} -> (structural witness or None, [(row, col, got, exp), ...])"""
    if len(got) != len(exp):
        return {"what": "number of images", "re-read": len(got), "written": len(exp)}, []
    diffs = []
    for i, (g, e) in enumerate(zip(got, exp)):
        if sorted(g) != sorted(e):
            return {"what": "columns", "row": i, "re-read": sorted(g)[:14], "written": sorted(e)[:14]}, []
        for c in e:
            if not O.cells_equal(g[c], e[c]):
                diffs.append((i, c, g[c], e[c]))
    return None, diffs


# ---- direct calls -----------------------------------------------------------------------------------
# Several monitored functions are normally reached only THROUGH other cryoCAT functions (Mdoc.__init__ -> _read_mdoc,
# remove_images -> kept_images, tlt_load -> one_value_per_line_read, defocus_load -> gctf_read/ctffind4_read,
# create_wedge_list_sg_batch -> create_wedge_list_sg).  A behaviour-preserving refactoring of that internal call structure must
# not leave a monitor blind (INCONCLUSIVE on correct code), so the driver also calls each of them directly, with fresh
# in-quantifier inputs and the keyword forms their signatures document; the monitors' floors are set from these direct calls.
def direct_read(ctx, path):
    ctx.call("Mdoc._read_mdoc(direct)", ctx.md.Mdoc._read_mdoc, file_path=path)


def direct_kept(ctx, m):
    ctx.call("Mdoc.kept_images(direct)", m.kept_images)


def check_roundtrip(ctx, m, out, write_removed, label="Mdoc(written)"):
    """Mdoc(out) must equal the part of m that write() put on disk"""
    S = _state(m)
    jr = S["cols"].index("Removed")
    keep = [r for r in S["rows"] if write_removed or r[jr] == ("b", False)]
    if not keep:
        ctx.ood("mdoc_roundtrip")
        return None
    direct_kept(ctx, m)
    direct_read(ctx, out)
    ok, m2 = ctx.call(label, ctx.md.Mdoc, out)
    if not ok:
        return None
    S2 = _state(m2)
    w, diffs = None, []
    if S2["titles"] != S["titles"]:
        w = {"what": "titles", "re-read": S2["titles"], "written": S["titles"]}
    elif m2.section_id != m.section_id:
        w = {"what": "section keyword", "re-read": m2.section_id, "written": m.section_id}
    elif [k for k, _ in S2["info"]] != [k for k, _ in S["info"]]:
        w = {"what": "header keys", "re-read": [k for k, _ in S2["info"]], "written": [k for k, _ in S["info"]]}
    else:
        for (k, a), (_, b) in zip(S2["info"], S["info"]):
            if not O.cells_equal(a, b):
                diffs.append(("header", k, a, b))
        exp_rows = O.rows_by_name(S["cols"], keep, skip=("Removed",))
        got_rows = O.rows_by_name(S2["cols"], S2["rows"], skip=("Removed",))
        w, d2 = _table_diffs(got_rows, exp_rows)
        diffs += d2
        if w is None and "Removed" in S2["cols"]:
            j2 = S2["cols"].index("Removed")
            if any(r[j2] != ("b", False) for r in S2["rows"]):
                w = {"what": "re-read table has Removed set"}
        if w is None and S2["idx"] != list(range(len(S2["rows"]))):
            w = {"what": "re-read row labels not 0..n-1"}
    if w is None and diffs:
        i, c, g, e = diffs[0]
        w = {"what": "value differs after write -> re-read", "where": i, "column": c, "re-read": list(g), "written": list(e), "n_cells": len(diffs)}
    ctx.check("mdoc_roundtrip", w is None, w)
    return m2


def check_history(ctx, case, out, write_removed):
    if len(set(case["st"]["tilts"])) != len(case["st"]["tilts"]):
        ctx.ood("mdoc_history")
        return
    try:
        p = O.parse_mdoc(open(out, "rb").read().decode("utf-8"))
        got = [(int(s["id"]), float(dict(s["items"])["TiltAngle"])) for s in p["sections"]]
    except (ValueError, KeyError, OSError) as e:
        ctx.check("mdoc_history", False, {"what": "written file not parsable", "error": str(e)[:200]})
        return
    want = [(e["z"], e["tilt"]) for e in case["model"] if write_removed or not e["removed"]]
    ok = len(got) == len(want) and all(a[0] == b[0] and abs(a[1] - b[1]) <= 1e-9 for a, b in zip(got, want))
    ctx.check("mdoc_history", ok, None if ok else {"what": "sections in the written file != model after the history (id, tilt)", "file": got[:30], "model": want[:30],
                                                   "ops": case["ops"], "write_removed": write_removed})


def _indices_as(op):
    ind = list(op["indices"])
    if op.get("as") == "array":
        return np.array(ind, dtype=int)
    if op.get("as") == "range" and ind and ind == list(range(ind[0], ind[0] + len(ind))):
        return range(ind[0], ind[0] + len(ind))
    return ind


def _flag(v, i):
    """flags arrive as numpy booleans as often as Python ones (results of comparisons on arrays)"""
    return np.bool_(v) if i % 2 else bool(v)


def run_mdoc(ctx, case):
    md, st, i = ctx.md, case["st"], case["i"]
    base = _base(ctx, case)
    os.makedirs(base, exist_ok=True)
    text = O.render_mdoc(st)
    p = O.parse_mdoc(text)
    if (p["header"] != [(k, v) for k, v in st["header"]] or p["titles"] != st["titles"] or p["section_id"] != st["section_id"]
            or [(s["id"], s["items"]) for s in p["sections"]] != [(s["id"], [tuple(x) for x in s["items"]]) for s in st["sections"]]
            or O.mdoc_in_grammar(p) is not None):
        raise RuntimeError("oracle self-check: the independent parser does not recover the generated structure (%s)" % O.mdoc_in_grammar(p))
    src = os.path.join(base, "in.mdoc")
    out = os.path.join(base, "out.mdoc")
    wr = case["write"]
    _write_text(src, text)
    direct_read(ctx, src)
    ok, m = ctx.call("Mdoc(path)", md.Mdoc, src)
    if not ok:
        return
    if case["index_kind"] != "range":
        imgs = m.imgs.copy()
        n = len(imgs)
        r3 = ctx.rng(i, 2)
        if r3.random() < 0.5:              # a table derived from the loaded one with its columns in another order
            imgs = imgs[[imgs.columns[j] for j in r3.permutation(len(imgs.columns))]]
        if case["index_kind"] == "permuted":
            imgs.index = r3.permutation(n)
        elif case["index_kind"] == "gaps":
            imgs.index = np.sort(r3.choice(np.arange(3 * n + 5), n, replace=False))
        elif case["index_kind"] == "reversed":
            imgs.index = np.arange(n)[::-1]
        else:
            imgs.index = ["img_%03d" % k for k in r3.permutation(n)]
        ok, m = ctx.call("Mdoc(imgs=frame)", md.Mdoc, titles=list(m.titles), project_info=dict(m.project_info), imgs=imgs, section_id=m.section_id)
        if not ok:
            return
    written = False
    for op in case["ops"]:
        if op["op"] == "get_tilt_angles":
            csv = os.path.join(base, "tilts.csv")
            ok, vals = ctx.call("get_tilt_angles", md.get_tilt_angles, src, output_file=csv)
            if ok:
                truth = np.array(st["tilts"])
                good = np.shape(vals) == truth.shape and bool(np.all(np.abs(np.asarray(vals, dtype=float) - truth) <= 1e-12))
                ctx.check("get_tilt_angles", good, None if good else _vec_witness("get_tilt_angles != TiltAngle values in file order", vals, truth))
                ok, tl = ctx.call("tlt_load(csv of get_tilt_angles)", ctx.io.tlt_load, csv)
                if ok:
                    good = O.f32_close(np.asarray(tl, dtype=float), np.sort(truth)) if np.ndim(tl) == 1 and len(tl) == len(truth) else False
                    ctx.check("loader_truth", good, None if good else _vec_witness("tlt_load(csv) != sorted mdoc tilts", tl, np.sort(truth)))
            return
        if op.get("as") == "module":
            if op["op"] == "sort":
                ok, m = ctx.call("sort_mdoc_by_tilt_angles", md.sort_mdoc_by_tilt_angles, src, reset_z_value=op["reset"], output_file=out)
            else:
                shift = 1 if op["from1"] else 0
                idx = [x + shift for x in op["indices"]]
                if op["idx_input"] == "file":
                    arg = os.path.join(base, "remove.txt")
                    _write_text(arg, "".join("%d\n" % x for x in idx))
                elif op["idx_input"] == "array":
                    arg = np.array(idx, dtype=int)
                else:
                    arg = idx
                if not idx:
                    return
                ok, m = ctx.call("mdoc.remove_images(file)", md.remove_images, src, arg, numbered_from_1=op["from1"], output_file=out)
            if not ok:
                return
            written = True
            wr = dict(wr, removed=False)
            continue
        if op["op"] == "sort":
            ok, _ = ctx.call("sort_by_tilt", m.sort_by_tilt, reset_z_value=_flag(op["reset"], i))
        else:
            ok, _ = ctx.call("remove_images", m.remove_images, _indices_as(op), kept_only=_flag(op["kept_only"], i))
        if not ok:
            return
    if not written:
        if wr["default_path"] and getattr(m, "file_path", None):
            out = m.file_path
            ok, _ = ctx.call("Mdoc.write(default path)", m.write, overwrite=True, removed=wr["removed"])
        else:
            ok, _ = ctx.call("Mdoc.write", m.write, out, removed=_flag(wr["removed"], i))
        if not ok:
            return
    if i % 5 == 0:
        before = open(out, "rb").read()
        try:
            m.write(out)                   # documented refusal (FileExistsError): exercised, the file must stay as it is
            refused = False
        except FileExistsError:
            refused = True
        if refused and open(out, "rb").read() == before:
            ctx.ood("mdoc_write")
        else:
            ctx.notes.append("Mdoc.write onto an existing file without overwrite=True did not refuse")
    check_history(ctx, case, out, wr["removed"])
    m2 = check_roundtrip(ctx, m, out, wr["removed"])
    if m2 is not None and wr["again"]:
        out2 = os.path.join(base, "out2.mdoc")
        ok, _ = ctx.call("Mdoc.write(second generation)", m2.write, out2)
        if ok:
            check_roundtrip(ctx, m2, out2, False, label="Mdoc(second generation)")


def run_numbers(ctx, case):
    io = ctx.io
    base = _base(ctx, case)
    is_tlt = case["cls"] == "tlt_files"
    for k, f in enumerate(case["files"]):
        r2 = np.random.default_rng(f["sub"])
        text, toks = O.render_numbers(r2, f["values"], f["style"])
        ext = str(r2.choice([".tlt", ".rawtlt", ".txt", ".csv"] if is_tlt else [".txt", ".dose", ".dat"]))
        path = os.path.join(base, "f%d%s" % (k, ext))
        _write_text(path, text)
        if k == 1 and os.path.abspath(os.getcwd()) == os.path.abspath(ctx.scratch):
            path = os.path.relpath(path, ctx.scratch)          # a relative path (the working directory is the scratch directory)
        truth = np.array([float(t) for t in toks])
        if is_tlt:
            calls = [("tlt_load(file)", lambda: io.tlt_load(path), np.sort(truth)),
                     ("tlt_load(file, unsorted)", lambda: io.tlt_load(path, sort_angles=np.False_), truth)]
        else:
            calls = [("total_dose_load(file)", lambda: io.total_dose_load(path), truth)]
        calls.append(("one_value_per_line_read", lambda: io.one_value_per_line_read(path), truth))
        for label, fn, exp in calls:
            ok, r = ctx.call(label, fn)
            if ok:
                good = isinstance(r, np.ndarray) and r.ndim == 1 and O.f32_close(r, exp)
                ctx.check("loader_truth", good, None if good else _vec_witness(label + " != generated numbers", r, exp))
        arr = np.array(f["values"])
        for label, fn in ([("tlt_load(array)", lambda: io.tlt_load(arr)), ("tlt_load(list)", lambda: io.tlt_load(list(f["values"])))] if is_tlt else
                          [("total_dose_load(array)", lambda: io.total_dose_load(arr)), ("total_dose_load(list)", lambda: io.total_dose_load(list(f["values"])))]):
            ok, r = ctx.call(label, fn)
            if ok:
                good = isinstance(r, np.ndarray) and r.shape == arr.shape and bool(np.all(r == arr))
                ctx.check("loader_truth", good, None if good else _vec_witness(label + " != given numbers", r, arr))


def run_dose_mdoc(ctx, case):
    io, st = ctx.io, case["st"]
    path = os.path.join(ctx.scratch, "c%d" % case["i"], "ts.mdoc")
    _write_text(path, O.render_mdoc(st))
    direct_read(ctx, path)
    tilts = np.array(st["tilts"])
    for sort in (True, False):
        ok, r = ctx.call("tlt_load(mdoc)", io.tlt_load, path, sort_angles=sort)
        if ok:
            exp = np.sort(tilts) if sort else tilts
            good = np.shape(r) == exp.shape and bool(np.all(np.abs(np.asarray(r, dtype=float) - exp) <= 1e-12))
            ctx.check("loader_truth", good, None if good else _vec_witness("tlt_load(mdoc) != generated tilts", r, exp))
    if not st["with_prior"]:
        try:
            io.total_dose_load(path)           # DateTime branch: exercised, outside the statement, not judged
        except Exception:
            pass
        return
    dose = np.array([float(dict(s["items"])["ExposureDose"]) + float(dict(s["items"])["PriorRecordDose"]) for s in st["sections"]])
    for sort in (True, False):
        ok, r = ctx.call("total_dose_load(mdoc)", io.total_dose_load, path, sort_mdoc=_flag(sort, case["i"]))
        if ok:
            order = np.argsort(tilts, kind="stable")
            exp = dose[order] if sort else dose
            try:
                rf = np.array([float(x) for x in np.asarray(r).ravel()])
                if sort and rf.shape == exp.shape:       # images with the same angle may come in either order: compare per angle as multisets
                    ts = tilts[order]
                    for a in np.unique(ts):
                        g = ts == a
                        rf[g], exp[g] = np.sort(rf[g]), np.sort(exp[g])
                good = rf.shape == exp.shape and bool(np.all(np.abs(rf - exp) <= 1e-9 * np.maximum(1, exp)))
            except (TypeError, ValueError):
                good = False
            ctx.check("loader_truth", good, None if good else _vec_witness("total_dose_load(mdoc) != prior + exposure (%s order)" % ("tilt" if sort else "file"), r, exp))


def run_defocus(ctx, case):
    io = ctx.io
    base = _base(ctx, case)
    r2 = ctx.rng(case["i"], 1)
    U, V, ang, ph = case["U"], case["V"], case["ang"], case["phase"]
    if case["cls"] == "gctf":
        path = os.path.join(base, "ts_gctf.star")
        _write_text(path, O.render_gctf(r2, U, V, ang, ph, case["style"]))
        star.tokenize(open(path).read())            # self-check: the generated text is inside the STAR grammar
        calls = [("gctf_read", lambda: io.gctf_read(path)), ("defocus_load(gctf)", lambda: io.defocus_load(path, "gctf"))]
    else:
        path = os.path.join(base, "ts_ctffind4.txt")
        _write_text(path, O.render_ctffind4(r2, U, V, ang, ph, case["style"]))
        calls = [("ctffind4_read", lambda: io.ctffind4_read(path)), ("defocus_load(ctffind4)", lambda: io.defocus_load(path, "ctffind4"))]
    phase = ph if ph is not None else np.zeros(len(U))
    truth = np.column_stack([U * 1e-4, V * 1e-4, ang, phase, (U + V) / 2 * 1e-4])
    fr = _odd_frame(r2, truth, DEF_COLS)
    calls += [("defocus_load(frame)", lambda: io.defocus_load(fr)), ("defocus_load(array)", lambda: io.defocus_load(truth.copy()))]
    atol = np.array([0.6e-4, 0.6e-4, 0.006, 0.006, 0.6e-4])     # the texts carry >= 2 decimals (integers in style 'ints')
    for label, fn in calls:
        ok, r = ctx.call(label, fn)
        if not ok:
            continue
        w = None
        if not isinstance(r, pd.DataFrame) or sorted(map(str, r.columns)) != sorted(DEF_COLS) or len(r) != len(U):
            w = {"what": "shape/columns", "columns": [str(c) for c in getattr(r, "columns", [])], "rows": len(r) if hasattr(r, "__len__") else None, "expected_rows": len(U)}
        else:
            g = r[DEF_COLS].to_numpy(dtype=float)
            bad = ~(np.abs(g - truth) <= atol + 1e-6 * np.abs(truth))
            if bad.any():
                a, b = np.argwhere(bad)[0]
                w = {"what": "value != generated number", "row": int(a), "column": DEF_COLS[int(b)], "got": float(g[a, b]), "expected": float(truth[a, b])}
        ctx.check("defocus_truth", w is None, dict(w, call=label) if w else None)


# ---- wedge lists ---------------------------------------------------------------------------------
def _odd_frame(rng, a, columns=None):
    """a frame whose row labels are not 0..n-1: permuted, gapped, reversed, 1-based, repeated (concat without ignore_index), all equal, text"""
    df = pd.DataFrame(np.asarray(a), columns=columns)
    n = len(df)
    kind = str(rng.choice(["permuted", "gapped", "reversed", "one_based", "repeated", "all_zero", "text"]))
    if kind == "permuted":
        df.index = rng.permutation(n) * 2 + 5
    elif kind == "gapped":
        df.index = np.sort(rng.choice(np.arange(3 * n + 5), n, replace=False))
    elif kind == "reversed":
        df.index = np.arange(n)[::-1]
    elif kind == "one_based":
        df.index = np.arange(1, n + 1)
    elif kind == "repeated":
        h = (n + 1) // 2
        df.index = np.concatenate([np.arange(h), np.arange(n - h)])
    elif kind == "all_zero":
        df.index = np.zeros(n, dtype=int)
    else:
        df.index = ["row_%d" % k for k in rng.permutation(n)]
    return df


def _layout(rng, a):
    """the same numbers in another memory layout / dtype: non-contiguous slice, negative stride, Fortran order, read-only, float32"""
    a = np.array(a, dtype=float)
    kind = str(rng.choice(["plain", "strided", "negative_stride", "fortran", "readonly", "float32"]))
    if kind == "strided":
        big = np.zeros((2 * a.shape[0],) + a.shape[1:])
        big[::2] = a
        return big[::2]
    if kind == "negative_stride":
        return np.ascontiguousarray(a[::-1])[::-1]
    if kind == "fortran" and a.ndim == 2:
        return np.asfortranarray(a)
    if kind == "readonly":
        a.setflags(write=False)
        return a
    if kind == "float32":
        return a.astype(np.float32)
    return a


def materialise(ctx, case, base):
    """write the project's files; -> dict of arguments + per-tomogram truth"""
    r = ctx.rng(case["i"], 1)
    X = "x" * case["pad"]
    tomos = case["tomos"]
    fmt = {}
    fmt["tlt"] = os.path.join(base, case["tlt_fmt"].replace("$X", "$" + X)) if case["tlt_kind"] == "tlt" else os.path.join(base, "mdocs", "TS_$%s.mrc.mdoc" % X)
    fmt["ctf"] = {"none": None, "gctf": os.path.join(base, "ctf", "TS_$%s_gctf.star" % X), "ctffind4": os.path.join(base, "ctf$%s" % X, "$%s_ctffind4.txt" % X)}[case["ctf_kind"]]
    fmt["dose"] = {"none": None, "txt": os.path.join(base, "dose", "TS_$%s_dose.txt" % X), "mdoc": fmt["tlt"] if case["tlt_kind"] == "mdoc" else None}[case["dose_kind"]]
    truth = {}
    for t in tomos:
        rt = np.random.default_rng(t["sub"])
        tid = t["id"]
        tilts = np.array(t["tilts"])
        n = len(tilts)
        dose = np.array(t["dose"])
        if case["tlt_kind"] == "tlt":
            style = str(rt.choice(["lf", "crlf", "lead_ws", "no_final_nl", "trail_ws"]))
            text, toks = O.render_numbers(rt, tilts, style, fmt="%.2f")
            _write_text(O.expand_format(fmt["tlt"], tid), text)
        else:
            order = rt.permutation(n)
            step = float(dose.min())
            secs = []
            for z, j in enumerate(order):
                secs.append({"id": str(z), "items": [("TiltAngle", "%.2f" % tilts[j]), ("Magnification", "81000"), ("ExposureDose", "%r" % step),
                                                     ("PriorRecordDose", "%r" % float(np.round(dose[j] - step, 4))), ("DateTime", "12-Jan-21  14:%02d:%02d" % (z // 2 % 60, 30 * (z % 2))),
                                                     ("SubFramePath", "X:\\fr\\TS_%d_%03d.tif" % (tid, z))]})
            st = {"header": [("PixelSpacing", "1.35"), ("Voltage", "300")], "titles": ["T = SerialEM: tomogram %d" % tid], "section_id": "ZValue", "sections": secs,
                  "layout": {"crlf": bool(rt.random() < 0.3), "blank_between": 1, "ws_lines": False, "tight_eq": False, "pad_values": False, "final_newline": True, "trailing_blank": True}}
            _write_text(O.expand_format(fmt["tlt"], tid), O.render_mdoc(st))
            if case["dose_kind"] == "mdoc":
                dose = np.array([float("%r" % step) + float("%r" % float(np.round(d - step, 4))) for d in dose])
        U, V = np.array(t["U"]), np.array(t["V"])
        if case["ctf_kind"] == "gctf":
            _write_text(O.expand_format(fmt["ctf"], tid), O.render_gctf(rt, U, V, t["ang"], t["phase"] if rt.random() < 0.5 else None, "all_ints" if case["ctf_whole"] else str(rt.choice(["plain", "canonical", "crlf", "comments"]))))
        elif case["ctf_kind"] == "ctffind4":
            _write_text(O.expand_format(fmt["ctf"], tid), O.render_ctffind4(rt, U, V, t["ang"], t["phase"], "whole" if case["ctf_whole"] else str(rt.choice(["plain", "nohdr", "crlf", "varhdr"]))))
        if case["dose_kind"] == "txt":
            text, _ = O.render_numbers(rt, dose, str(rt.choice(["lf", "crlf", "lead_ws"])), fmt="%.4f")
            _write_text(O.expand_format(fmt["dose"], tid), text)
        truth[tid] = {"tilt_angle": tilts, "defocus": (U + V) / 2 * 1e-4 if case["ctf_kind"] != "none" else None,
                      "exposure": dose if case["dose_kind"] != "none" else None, "dims": np.array(t["dims"]), "z": t["z"]}
    ids = [t["id"] for t in tomos]
    extra = [int(x) for x in r.choice(np.arange(10 ** case["pad"], 10 ** case["pad"] + 50), 2, replace=False)]
    dk, zk = case["dim_kind"], case["z_kind"]
    rows4 = np.array([[t["id"]] + t["dims"] for t in tomos] + [[e] + [float(v) for v in r.integers(50, 900, 3)] for e in extra], dtype=float)
    if r.random() < 0.3:                   # an exact duplicate of a table row
        rows4 = np.vstack([rows4, rows4[int(r.integers(0, len(rows4)))]])
    rows4 = rows4[r.permutation(len(rows4))]
    rows2 = np.array([[t["id"], t["z"]] for t in tomos] + [[e, float(np.round(r.uniform(-50, 50), 1))] for e in extra], dtype=float)
    if r.random() < 0.3:
        rows2 = np.vstack([rows2, rows2[int(r.integers(0, len(rows2)))]])
    rows2 = rows2[r.permutation(len(rows2))]
    args = {"tlt_file_format": fmt["tlt"], "ctf_file_format": fmt["ctf"], "dose_file_format": fmt["dose"], "tomo_dim": None, "tomo_dim_file_format": None,
            "z_shift": 0.0, "z_shift_file_format": None}
    d0 = tomos[0]["dims"]
    if dk == "list3":
        args["tomo_dim"] = [int(v) if r.random() < 0.5 else float(v) for v in d0]
    elif dk == "array3":
        args["tomo_dim"] = np.array(d0)
    elif dk == "array_13":
        args["tomo_dim"] = np.array([d0])
    elif dk == "frame_13":
        args["tomo_dim"] = _odd_frame(r, [d0])
    elif dk == "file_13":
        args["tomo_dim"] = os.path.join(base, "dims.txt")
        _write_text(args["tomo_dim"], "%d %d  %d\n" % tuple(d0))
    elif dk == "array_n4":
        args["tomo_dim"] = rows4.copy()
    elif dk == "array_n4_int":
        args["tomo_dim"] = rows4.astype(int)
    elif dk == "frame_n4":
        args["tomo_dim"] = _odd_frame(r, rows4)
    elif dk == "file_n4":
        args["tomo_dim"] = os.path.join(base, "dims_all.txt")
        _write_text(args["tomo_dim"], "".join("%d %d %d\t%d\n" % tuple(x) for x in rows4))
    else:
        args["tomo_dim_file_format"] = os.path.join(base, "TS_$%s" % X, "dim_$%s.txt" % X)
        for t in tomos:
            _write_text(O.expand_format(args["tomo_dim_file_format"], t["id"]), "%d %d %d\n" % tuple(t["dims"]))
    z0 = tomos[0]["z"]
    if zk == "float":
        args["z_shift"] = float(z0)
    elif zk == "npfloat":
        args["z_shift"] = np.float64(z0)
    elif zk == "int":
        args["z_shift"] = int(z0)
    elif zk == "list1":
        args["z_shift"] = [float(z0)]
    elif zk == "array1":
        args["z_shift"] = np.array([z0])
    elif zk == "frame_11":
        args["z_shift"] = _odd_frame(r, [[z0]])
    elif zk == "file_11":
        args["z_shift"] = os.path.join(base, "zshift.txt")
        _write_text(args["z_shift"], "%r\n" % float(z0))
    elif zk == "array_n2":
        args["z_shift"] = rows2.copy()
    elif zk == "int_array_n2":
        args["z_shift"] = rows2.astype(int)
    elif zk == "int_list_n2":
        args["z_shift"] = [[int(a), int(b)] for a, b in rows2]
    elif zk == "list_n2":
        args["z_shift"] = [[float(a), float(b)] for a, b in rows2]
    elif zk == "frame_n2":
        args["z_shift"] = _odd_frame(r, rows2)
    elif zk == "file_n2":
        args["z_shift"] = os.path.join(base, "zshift_all.txt")
        _write_text(args["z_shift"], "".join("%d   %r\n" % (int(a), float(b)) for a, b in rows2))
    else:
        args["z_shift_file_format"] = os.path.join(base, "TS_$%s" % X, "zs$%s.txt" % X)
        for t in tomos:
            _write_text(O.expand_format(args["z_shift_file_format"], t["id"]), "%r\n" % t["z"])
    lk = case["list_kind"]
    if lk == "array_int":
        tl = np.array(ids, dtype=int)
    elif lk == "array_float":
        tl = np.array(ids, dtype=float)
    elif lk == "list":
        tl = list(ids)
    else:
        tl = os.path.join(base, "tomo_list.txt")
        _write_text(tl, "".join("%d\n" % x for x in ids))
    args["tomo_list"] = tl
    return args, truth


def truth_columns(case, truth, ids):
    c = case["consts"]
    parts = []
    for tid in ids:
        tr = truth[tid]
        n = len(tr["tilt_angle"])
        p = {"tomo_num": np.full(n, float(tid)), "pixelsize": np.full(n, c["pixel_size"]), "tomo_x": np.full(n, tr["dims"][0]), "tomo_y": np.full(n, tr["dims"][1]),
             "tomo_z": np.full(n, tr["dims"][2]), "z_shift": np.full(n, tr["z"]), "tilt_angle": tr["tilt_angle"], "voltage": np.full(n, c["voltage"]),
             "amp_contrast": np.full(n, c["amp_contrast"]), "cs": np.full(n, c["cs"])}
        if tr["defocus"] is not None:
            p["defocus"] = tr["defocus"]
        if tr["exposure"] is not None:
            p["exposure"] = tr["exposure"]
        parts.append(p)
    return O.concat_expected(parts)


def _f3_key(e):
    return None


def direct_wedge_inputs(ctx, case, args, truth, const_kw, r):
    """direct calls (see 'direct calls' above) of the file loaders and of create_wedge_list_sg on every tomogram of the project"""
    io, wu, c = ctx.io, ctx.wu, case["consts"]
    for t in case["tomos"]:
        tid = t["id"]
        tlt = O.expand_format(args["tlt_file_format"], tid)
        ctf = O.expand_format(args["ctf_file_format"], tid) if args["ctf_file_format"] else None
        dose = O.expand_format(args["dose_file_format"], tid) if args["dose_file_format"] else None
        if case["tlt_kind"] == "tlt":
            ctx.call("one_value_per_line_read(direct)", io.one_value_per_line_read, file_path=tlt)
        else:
            direct_read(ctx, tlt)
        if case["dose_kind"] == "txt":
            ctx.call("one_value_per_line_read(direct)", io.one_value_per_line_read, file_path=dose, data_type=np.float32)
        if case["ctf_kind"] == "gctf":
            ctx.call("gctf_read(direct)", io.gctf_read, file_path=ctf)
        elif case["ctf_kind"] == "ctffind4":
            ctx.call("ctffind4_read(direct)", io.ctffind4_read, file_path=ctf)
        if case["cls"] == "wedge_single":
            continue                       # this class calls create_wedge_list_sg itself
        ok, df = ctx.call("create_wedge_list_sg(direct)", wu.create_wedge_list_sg, tomo_id=tid, tomo_dim=list(t["dims"]), pixel_size=c["pixel_size"],
                          tlt_file=tlt, z_shift=float(t["z"]), ctf_file=ctf, ctf_file_type=case["ctf_kind"] if ctf else "gctf", dose_file=dose, **const_kw)
        if ok:
            w = O.compare_frame(df, truth_columns(case, truth, [tid]))
            ctx.check("wedge_truth", w is None, dict(w, call="create_wedge_list_sg(direct)") if w else None)
        # flow between the anchors: the very objects the loaders return (tilt array, defocus TABLE, dose array) go into the builder,
        # the table after the usual clean-up steps that leave its row labels different from 0..n-1 (bad tilts dropped with a mask,
        # 1-based numbering, reversed without reset_index, two halves concatenated); rows pair by POSITION with the tilts
        ok1, tl = ctx.call("tlt_load(for chain)", io.tlt_load, tlt)
        fr = ds = None
        ok2 = ok3 = True
        if ctf:
            ok2, fr = ctx.call("defocus_load(for chain)", io.defocus_load, ctf, case["ctf_kind"])
        if dose:
            ok3, ds = ctx.call("total_dose_load(for chain)", io.total_dose_load, dose)
        if not (ok1 and ok2 and ok3):
            continue
        tr = dict(truth[tid])
        n = len(tr["tilt_angle"])
        variant = str(r.choice(["mask", "reversed", "one_based", "repeated", "as_is"])) if fr is not None else "as_is"
        tl, ds = np.array(tl), (np.array(ds) if ds is not None else None)
        if variant == "mask" and n >= 2:
            keep = r.random(n) < 0.7
            keep[int(r.integers(0, n))] = False
            keep[int(r.integers(0, n))] = True
            fr, tl = fr[keep], tl[keep]
            ds = ds[keep] if ds is not None else None
            for k in ("tilt_angle", "defocus", "exposure"):
                tr[k] = tr[k][keep] if tr[k] is not None else None
        elif variant == "reversed":
            fr = fr.iloc[::-1]
            tr["defocus"] = tr["defocus"][::-1]
        elif variant == "one_based":
            fr = fr.copy()
            fr.index = np.arange(1, len(fr) + 1)
        elif variant == "repeated":
            h = (len(fr) + 1) // 2
            fr = pd.concat([fr.iloc[:h], fr.iloc[h:].reset_index(drop=True)])
        ok, df = ctx.call("create_wedge_list_sg(loader objects, %s)" % variant, wu.create_wedge_list_sg, tomo_id=np.int64(tid), tomo_dim=_odd_frame(r, [t["dims"]]),
                          pixel_size=c["pixel_size"], tlt_file=tl, z_shift=_odd_frame(r, [[t["z"]]]), ctf_file=fr, dose_file=ds,
                          drop_nan_columns=[True, np.True_][int(r.integers(0, 2))], **const_kw)
        if ok:
            w = O.compare_frame(df, truth_columns(case, {tid: tr}, [tid]))
            ctx.check("wedge_truth", w is None, dict(w, call="create_wedge_list_sg(loader objects)", variant=variant) if w else None)


def run_wedge(ctx, case):
    wu = ctx.wu
    base = _base(ctx, case)
    os.makedirs(base, exist_ok=True)
    args, truth = materialise(ctx, case, base)
    c = case["consts"]
    ids = [t["id"] for t in case["tomos"]]
    zero = {"int0": 0, "float0": 0.0, "npfloat0": np.float64(0), "negzero": -0.0, "npint0": np.int64(0)}[c["zero_form"]]
    const_kw = {k: (zero if c[k] == 0 else c[k]) for k in c["explicit"]}
    cls = case["cls"]
    r = ctx.rng(case["i"], 2)
    direct_wedge_inputs(ctx, case, args, truth, const_kw, r)
    if cls == "wedge_single":
        t = case["tomos"][0]
        tid = t["id"]
        si = case["single_inputs"]
        tr = truth[tid]
        tlt = O.expand_format(args["tlt_file_format"], tid)
        if case["tlt_kind"] == "tlt" and si["tlt"] != "file":
            tlt = _layout(r, t["tilts"]) if si["tlt"] == "array" else list(t["tilts"])
        ctf = None
        if case["ctf_kind"] != "none":
            ctf = O.expand_format(args["ctf_file_format"], tid)
            if si["ctf"] != "file":
                U, V = np.array(t["U"]), np.array(t["V"])
                tab = np.column_stack([U * 1e-4, V * 1e-4, t["ang"], t["phase"], (U + V) / 2 * 1e-4])
                ctf = _layout(r, tab) if si["ctf"] == "array" else (pd.DataFrame(tab, columns=DEF_COLS) if si["ctf"] == "frame" else _odd_frame(r, tab, DEF_COLS))
        dose = None
        if case["dose_kind"] != "none":
            dose = O.expand_format(args["dose_file_format"], tid)
            if case["dose_kind"] == "txt" and si["dose"] != "file":
                dose = _layout(r, t["dose"]) if si["dose"] == "array" else list(t["dose"])
        dim = args["tomo_dim"]
        out = os.path.join(base, "wl_single.star") if case["write"] else None
        z = args["z_shift"]
        if isinstance(z, int) and r.random() < 0.5:
            z = np.int64(z) if r.random() < 0.5 else np.int32(z)
        ok, df = _call_keyed(ctx, "create_wedge_list_sg", _f3_key, wu.create_wedge_list_sg, tid, dim, c["pixel_size"], tlt, z_shift=z, ctf_file=ctf,
                             ctf_file_type=case["ctf_kind"] if case["ctf_kind"] != "none" else "gctf", dose_file=dose, output_file=out,
                             drop_nan_columns=si["drop"], **const_kw)
        if ok:
            w = O.compare_frame(df, truth_columns(case, truth, [tid]), dropped_absent=si["drop"])
            ctx.check("wedge_truth", w is None, w)
        # three-step history: the caller modifies its own arrays / lists IN PLACE between the calls; every call is judged against
        # the values they hold at that moment, and no call may change them
        owned = [x for x in (tlt, ctf, dose) if isinstance(x, (np.ndarray, list))]
        if not owned or any(isinstance(x, np.ndarray) and not x.flags.writeable for x in owned):
            return
        tr2 = dict(tr)
        for step in (1, 2):
            if isinstance(tlt, np.ndarray):
                tlt += 0.25 * step
            elif isinstance(tlt, list):
                tlt[:] = [x + 0.25 * step for x in tlt]
            if isinstance(tlt, (np.ndarray, list)):
                tr2["tilt_angle"] = np.array(tlt, dtype=float)
            if isinstance(dose, np.ndarray):
                dose *= 2.0
            elif isinstance(dose, list):
                dose[:] = [2.0 * x for x in dose]
            if isinstance(dose, (np.ndarray, list)):
                tr2["exposure"] = np.array(dose, dtype=float)
            if isinstance(ctf, np.ndarray):
                ctf[:, 4] += 0.125
                tr2["defocus"] = ctf[:, 4].copy()
            before = [np.array(x, dtype=float).copy() for x in owned]
            ok, df = ctx.call("create_wedge_list_sg(step %d, arrays modified in place)" % (step + 1), wu.create_wedge_list_sg, tid, dim, c["pixel_size"], tlt, z_shift=z,
                              ctf_file=ctf, ctf_file_type=case["ctf_kind"] if case["ctf_kind"] != "none" else "gctf", dose_file=dose, drop_nan_columns=si["drop"], **const_kw)
            same = all(np.array_equal(np.array(x, dtype=float), b) for x, b in zip(owned, before))
            ctx.check("caller_arrays_unchanged", same, None if same else {"what": "create_wedge_list_sg changed an array/list it was given", "step": step + 1})
            if ok:
                w = O.compare_frame(df, truth_columns(case, {tid: tr2}, [tid]), dropped_absent=si["drop"])
                ctx.check("wedge_truth", w is None, dict(w, step=step + 1) if w else None)
        return
    out = os.path.join(base, "wl.star") if (case["write"] or cls == "wedge_em") else None
    kw = dict(tomo_dim=args["tomo_dim"], tomo_dim_file_format=args["tomo_dim_file_format"], z_shift=args["z_shift"], z_shift_file_format=args["z_shift_file_format"],
              ctf_file_format=args["ctf_file_format"], ctf_file_type=case["ctf_kind"] if case["ctf_kind"] != "none" else "gctf",
              dose_file_format=args["dose_file_format"], output_file=out, **const_kw)
    if isinstance(kw["tomo_dim"], pd.DataFrame):
        kw["tomo_dim"] = kw["tomo_dim"].copy()
    ok, df = _call_keyed(ctx, "create_wedge_list_sg_batch", _f3_key, wu.create_wedge_list_sg_batch, args["tomo_list"], c["pixel_size"], args["tlt_file_format"], **kw)
    if ok:
        exp = truth_columns(case, truth, ids)
        w = O.compare_frame(df, exp)
        if w is None and out is not None:
            w = O.compare_star(out, df, exp)
        ctx.check("wedge_truth", w is None, w)
    if cls != "wedge_em" and not case["write"]:
        return
    em_out = os.path.join(base, "wl.em")
    ok1, em = ctx.call("create_wedge_list_em_batch", wu.create_wedge_list_em_batch, args["tomo_list"], args["tlt_file_format"], output_file=em_out if case["write"] else None)
    mm = {float(t): (float(np.float32(truth[t]["tilt_angle"].min())), float(np.float32(truth[t]["tilt_angle"].max()))) for t in ids}
    if ok1:
        got = _frame3(em, ["tomo_num", "min_angle", "max_angle"])
        good = got is not None and [float(x) for x in got[:, 0]] == [float(t) for t in ids] and all(abs(a - mm[t][0]) <= 1e-5 and abs(b - mm[t][1]) <= 1e-5 for t, a, b in got)
        ctx.check("wedge_truth", good, None if good else {"what": "EM wedge list != generated min/max tilts", "got": got, "expected": mm})
    src = case["em_source"]
    spath = out
    if src in ("own_star", "own_star_shuffled") or not ok:
        spath = os.path.join(base, "own.star")
        O.write_wedge_star(r, spath, ids, [truth[t]["tilt_angle"] for t in ids], shuffle_rows=(src == "own_star_shuffled"))
    arg = spath
    if src in ("frame", "frame_shuffled") and ok:       # rows of a tomogram not ascending in tilt (lists built from arrays in acquisition order)
        arg = df.iloc[r.permutation(len(df))].copy() if src == "frame_shuffled" else df.copy()
        arg = _odd_frame(r, arg.to_numpy(dtype=float), list(arg.columns))
    ok2, em2 = ctx.call("wedge_list_sg_to_em", wu.wedge_list_sg_to_em, arg, os.path.join(base, "wl2.em"), write_out=[True, np.True_, False, np.False_, True][int(r.integers(0, 5))])
    if ok2:
        got2 = _frame3(em2, ["tomo_id", "min_tilt_angle", "max_tilt_angle"])
        good = got2 is not None and sorted(got2[:, 0].tolist()) == sorted(mm) and all(abs(a - mm[t][0]) <= 1e-4 and abs(b - mm[t][1]) <= 1e-4 for t, a, b in got2)
        ctx.check("wedge_truth", good, None if good else {"what": "converted EM wedge list != generated min/max tilts", "got": got2, "expected": mm})
        if ok1 and got2 is not None and _frame3(em, ["tomo_num", "min_angle", "max_angle"]) is not None:
            a = {float(x[0]): (float(x[1]), float(x[2])) for x in _frame3(em, ["tomo_num", "min_angle", "max_angle"])}
            b = {float(x[0]): (float(x[1]), float(x[2])) for x in got2}
            good = sorted(a) == sorted(b) and all(abs(a[k][0] - b[k][0]) <= 1e-4 and abs(a[k][1] - b[k][1]) <= 1e-4 for k in a)
            ctx.check("wedge_em_consistent", good, None if good else {"what": "EM list from tilt files != EM list converted from the STOPGAP list", "from_files": a, "converted": b})


def run_case(ctx, case):
    kind = case["kind"]
    base = _base(ctx, case)
    try:
        if kind == "mdoc":
            run_mdoc(ctx, case)
        elif kind == "mdoc_reuse":
            run_reuse(ctx, case)
        elif kind == "numbers":
            run_numbers(ctx, case)
        elif kind == "dose_mdoc":
            run_dose_mdoc(ctx, case)
        elif kind == "defocus":
            run_defocus(ctx, case)
        else:
            run_wedge(ctx, case)
    finally:
        shutil.rmtree(os.path.join(ctx.scratch, "c%d" % case["i"]), ignore_errors=True)
        shutil.rmtree(base, ignore_errors=True)


# ================================================================================================
def extra(ctx):
    """exhaustive sub-spaces (shard 0): every index subset of a 5-image mdoc (kept_only on/off after one prior removal),
    and tilt files of every length 1..80."""
    md, io = ctx.md, ctx.io
    base = os.path.join(ctx.scratch, "extra")
    rng = ctx.rng(10 ** 6)
    st = O.gen_mdoc(rng, 5, cls="values", scheme="dose_symmetric", with_prior=True)
    src = os.path.join(base, "five.mdoc")
    _write_text(src, O.render_mdoc(st))
    n_sub = 0
    for mask in range(32):
        sub = [k for k in range(5) if mask >> k & 1]
        for kept_only in (True, False):
            m = md.Mdoc(src)
            m.sort_by_tilt()
            model = _model_apply([{"z": int(s["id"]), "tilt": float(dict(s["items"])["TiltAngle"]), "removed": False} for s in st["sections"]], {"op": "sort", "reset": False})
            first = {"op": "remove", "indices": [2], "kept_only": True}
            m.remove_images([2])
            model = _model_apply(model, first)
            pool = 4 if kept_only else 5
            sub2 = [x for x in sub if x < pool]
            m.remove_images(sub2, kept_only=kept_only)
            model = _model_apply(model, {"op": "remove", "indices": sub2, "kept_only": kept_only})
            out = os.path.join(base, "five_%d_%d.mdoc" % (mask, kept_only))
            m.write(out)
            check_history(ctx, {"st": st, "model": model, "ops": [first, {"indices": sub2, "kept_only": kept_only}]}, out, False)
            check_roundtrip(ctx, m, out, False)
            n_sub += 1
    ctx.extra["index subsets of a 5-image mdoc x kept_only (after sort + one removal)"] = n_sub
    n_len = 0
    for n in range(1, 81):
        vals = _asc_values(rng, n, repeats=0.5)
        text, toks = O.render_numbers(rng, vals, O.NUM_STYLES[n % len(O.NUM_STYLES)])
        p = os.path.join(base, "len_%d.tlt" % n)
        _write_text(p, text)
        ctx.call("one_value_per_line_read(direct)", io.one_value_per_line_read, file_path=p)
        ok, r = ctx.call("tlt_load(file)", io.tlt_load, p)
        if ok:
            truth = np.array([float(t) for t in toks])
            good = isinstance(r, np.ndarray) and r.ndim == 1 and O.f32_close(r, truth)
            ctx.check("loader_truth", good, None if good else _vec_witness("tlt_load != generated numbers", r, truth))
        n_len += 1
    ctx.extra["tilt-file lengths 1..80"] = n_len
    shutil.rmtree(base, ignore_errors=True)
