"""C10 - Cyclic symmetry expansion places sub-units on the symmetry orbit.

Call monitors (DESIGN.md 4/C10), attached in place, evaluated on EVERY in-domain call of
Motl.split_in_asymmetric_subunits (C-symmetries only; D-symmetries are outside the property and counted out-of-domain):
  rows_per_parent   n rows per parent, every geom5 is a parent's subtomo_id
  subunit_index     each parent's rows carry geom2 = 1..n, each once
  orientation       row with geom2 = k+1 has orientation R.Rz(360k/n)            (hand-written matrices, vmon.oracles.so3)
  position          its complete position is centre + R.Rz(360k/n).s
  unique_ids        the new subtomo_id values are pairwise different
  inherited         score, geom1, tomo_id, object_id, subtomo_mean, geom3, geom4, class are the parent's
  integral          x, y, z integral and |shift| <= 0.5
  recentre          post(Motl.update_coordinates) (the last step of the expansion): complete positions unchanged row by row,
                    x,y,z integral, |shift| <= 0.5
Driver-side relational clauses (on the returned table only):
  back_to_centre    every sub-unit, moved back by its own orientation applied to s, lands on the parent's centre
  z_orbit           the n sub-units share the parent's z-axis; geom2 -> geom2+1 (and n -> 1) is a turn of 360/n about it, for
                    orientations (G_k^T G_k+1 = Rz(360/n)) and for the arms position - centre (Rodrigues about R.ez)
  on_axis_coincide  s on the axis: all n sub-units of a parent have the same complete position
  spelling_agree    'Cn', 'cn', n, float(n), np.int64(n) and np.float64(n) give the same sub-units: after ordering by (geom5, geom2) equal parent, index,
                    inherited fields, complete positions and orientation matrices (numbering and Euler spelling not compared)
Exhaustive sub-space (extra): every n in 1..32 (quick) / 1..64 (thorough) x the six spellings x {generic, on-axis, zero} offset.
"""
import types

import numpy as np

from vmon import gens, monitors
from vmon.oracles import c10_oracle as orc
from vmon.oracles import so3

PROP = "C10"
RULE = ("cases = generated particle lists (1..100 particles; stratified over orientation kinds incl. gimbal lock, position "
        "kinds incl. negative/large/half-integer ties, parents with all shifts exactly 0, identifier/index layouts) x symmetry order n (1..64; divisors and "
        "non-divisors of 360) x spelling ('Cn','cn',int,integral float,np.int64,np.float64; spelling of case i = (i // #classes) mod 6) x offset "
        "s (generic, in-plane, on-axis, zero, integer lists/tuples); non-trivial = n >= 2 and s has a non-zero in-plane "
        "component (n distinct poses at n distinct places); distinct by digest of (n, spelling, #particles, s, class, first pose); "
        "the exhaustive sweep over n is reported separately under observed.n_values_covered")
ASSUMPTIONS = [
    "offset s = the xyz_shift argument read as a CARTESIAN vector (sx, sy, sz) in the PARENT particle's own frame (the frame "
    "in which the parent's z-axis is the symmetry axis): cryoCAT converts it internally to cylindrical (rho, atan2(sy,sx), sz), "
    "adds 360k/n to the azimuth and converts back, i.e. forms Rz(360k/n).s; the oracle never does that conversion, it "
    "multiplies hand-written matrices: expected position of sub-unit k = (x,y,z)+(shift) + Rz(psi)Rx(theta)Rz(phi).Rz(360k/n).s",
    "k counts from 0 for geom2 = 1 (geom2 = k+1); rows are attributed to parents by geom5 == parent subtomo_id and to k by "
    "geom2, never by row order (the statement does not fix an output order)",
    "orientation R of a particle = Rz(psi).Rx(theta).Rz(phi) (extrinsic zxz, active, DESIGN.md section 3); 'rotation about the "
    "parent's own z-axis' = right-multiplication by Rz",
    "'a number' = Python int, integral Python float, numpy integer or integral numpy float (six spellings are generated: 'Cn', "
    "'cn', int, float, np.int64, np.float64); bool, non-integral floats, strings other than C<n>/c<n> without leading zeros, "
    "and n outside 1..64 are out of domain",
    "input lists have pairwise different subtomo_id (otherwise 'its parent' is ambiguous), finite fields, |position| <= 1e7",
    "orientations are compared entry-wise with 1e-6 (not 1e-9): the result is only observable as zxz Euler angles and the "
    "Euler extraction treats |theta| < 1e-7 rad as gimbal lock (measured loss 3.5e-9 on near-gimbal inputs); positions with "
    "1e-9*max(1,|s|) + 1e-13*max|centre|",
    "|shift| <= 0.5 is checked exactly as stated (either rounding direction at a half-integer tie is accepted)",
]

CLASSES = ["divisor", "nondivisor", "n1", "n_33_64", "on_axis", "zero_offset", "inplane_offset", "int_offset",
           "single_particle", "many_particles", "gimbal", "near_gimbal", "wide_angles", "half_ties", "large_signed_pos",
           "odd_ids_index", "zero_shift"]
SPELLINGS = ["Cn", "cn", "int", "float", "np.int64", "np.float64"]
CLAUSES = ["rows_per_parent", "subunit_index", "orientation", "position", "unique_ids", "inherited", "integral"]
NONDIV = [n for n in range(1, 65) if 360 % n]
DIV = [n for n in range(1, 65) if 360 % n == 0]


def plan(tier):
    if tier == "quick":
        call_min = 700
        return dict(n_cases=340, shards=1, classes=CLASSES, timeout_s=600,
                    min_evals=dict({c: call_min for c in CLAUSES}, recentre=600, back_to_centre=700, z_orbit=700,
                                   spelling_agree=400, on_axis_coincide=80),
                    min_anchor_calls={"Motl.split_in_asymmetric_subunits": call_min})
    call_min = 4800
    return dict(n_cases=2550, shards=16, classes=CLASSES, timeout_s=3000,
                min_evals=dict({c: call_min for c in CLAUSES}, recentre=4200, back_to_centre=4800, z_orbit=4800,
                               spelling_agree=2400, on_axis_coincide=500),
                min_anchor_calls={"Motl.split_in_asymmetric_subunits": call_min})


def spell(n, sp):
    return {"Cn": "C%d" % n, "cn": "c%d" % n, "int": int(n), "float": float(n), "np.int64": np.int64(n),
            "np.float64": np.float64(n)}[sp]


# ---- call monitors ------------------------------------------------------------------------------
def _split_applicable(A):
    n, _ = orc.parse_symmetry(A["symmetry"])
    if n is None or orc.offset_vector(A["xyz_shift"]) is None:
        return False
    return orc.table_in_domain(getattr(A["self"], "df", None))


def _split_snapshot(A):
    n, sp = orc.parse_symmetry(A["symmetry"])
    return {"parent": A["self"].df.copy(), "n": n, "spelling": sp, "s": orc.offset_vector(A["xyz_shift"])}


def _split_post(ctx, A, OLD, result):
    out = getattr(result, "df", None)
    if out is None:
        ctx.check("rows_per_parent", False, {"returned": type(result).__name__})
        return
    verdicts = orc.judge(OLD["parent"], OLD["n"], OLD["s"], out)
    for name, (ok, w) in verdicts.items():
        if w is not None:
            w = dict(w, symmetry=repr(A["symmetry"]), particles=len(OLD["parent"]))
        ctx.check(name, ok, w)
    ctx.extra["calls_spelling_" + OLD["spelling"]] = ctx.extra.get("calls_spelling_" + OLD["spelling"], 0) + 1
    if 360 % OLD["n"]:
        ctx.extra["calls_n_not_dividing_360"] = ctx.extra.get("calls_n_not_dividing_360", 0) + 1
    try:
        sh = out[["shift_x", "shift_y", "shift_z"]].to_numpy(dtype=float)
        xyz = out[["x", "y", "z"]].to_numpy(dtype=float)
        ctx.extra["output_cells_exactly_at_half_tie"] = ctx.extra.get("output_cells_exactly_at_half_tie", 0) + int((np.abs(sh) == 0.5).sum())
        ctx.extra["output_rows_with_negative_coordinate"] = ctx.extra.get("output_rows_with_negative_coordinate", 0) + int((xyz < 0).any(axis=1).sum())
        ctx.extra["output_rows_judged"] = ctx.extra.get("output_rows_judged", 0) + len(out)
        psh = OLD["parent"][["shift_x", "shift_y", "shift_z"]].to_numpy(dtype=float)
        pxyz = OLD["parent"][["x", "y", "z"]].to_numpy(dtype=float)
        z = (psh == 0).all(axis=1)
        ctx.extra["parents_with_all_shifts_zero"] = ctx.extra.get("parents_with_all_shifts_zero", 0) + int(z.sum())
        ctx.extra["such_parents_with_non_integer_xyz"] = ctx.extra.get("such_parents_with_non_integer_xyz", 0) + int((z & (pxyz != np.round(pxyz)).any(axis=1)).sum())
    except Exception:
        pass


def _uc_applicable(A):
    df = getattr(A["self"], "df", None)
    try:
        v = df[["x", "y", "z", "shift_x", "shift_y", "shift_z"]].to_numpy(dtype=float)
    except Exception:
        return False
    return bool(len(v) >= 1 and np.all(np.isfinite(v)) and np.abs(v).max() <= orc.POS_MAX)


def _uc_snapshot(A):
    return orc.centres(A["self"].df)


def _uc_post(ctx, A, before, result):
    df = A["self"].df
    if len(df) != len(before):
        ctx.check("recentre", False, {"rows_before": len(before), "rows_after": len(df)})
        return
    after = orc.centres(df)
    xyz = df[["x", "y", "z"]].to_numpy(dtype=float)
    sh = df[["shift_x", "shift_y", "shift_z"]].to_numpy(dtype=float)
    tol = 1e-9 + 1e-13 * float(np.abs(before).max())
    moved = ~(np.abs(after - before) <= tol)
    bad = moved | ~(xyz == np.round(xyz)) | ~(np.abs(sh) <= 0.5)
    w = None
    if bad.any():
        r = int(np.argwhere(bad)[0][0])
        w = {"row": r, "complete_position_before": before[r], "after": after[r], "xyz": xyz[r], "shift": sh[r],
             "cells_moved": int(moved.sum()), "cells_bad": int(bad.sum())}
    ctx.check("recentre", w is None, w)


def setup(ctx):
    from cryocat import cryomotl
    ctx.cm = cryomotl
    f_split = monitors.wrap(ctx, cryomotl.Motl, "split_in_asymmetric_subunits", "rows_per_parent", _split_post,
                            _split_applicable, _split_snapshot)
    f_uc = monitors.wrap(ctx, cryomotl.Motl, "update_coordinates", "recentre", _uc_post, _uc_applicable, _uc_snapshot)
    ctx.declare(*CLAUSES)
    ctx.declare("back_to_centre", "z_orbit", "on_axis_coincide", "spelling_agree")
    specs = [("Motl.split_in_asymmetric_subunits", f_split,
              {"string_spelling": "re.findall", "string_is_c": ("s_type = 1", 0), "string_is_d": "s_type = 2",
               "numeric_spelling": ("s_type = 1", 1), "cyclic_angles": ("n_subunits = nfold", 0),
               "dihedral_angles": "n_subunits = nfold * 2", "dihedral_zflip": "rep_z[1::2] *= -1",
               "recentre_call": "new_motl.update_coordinates()"}),
             ("Motl.update_coordinates", f_uc)]
    try:        # the row worker of update_coordinates is a nested function: trace its code object too
        inner = [c for c in f_uc.__code__.co_consts if isinstance(c, types.CodeType) and c.co_name == "round_and_recenter"]
        if inner:
            specs.append(("Motl.update_coordinates.round_and_recenter", types.FunctionType(inner[0], f_uc.__globals__)))
    except Exception as e:
        ctx.notes.append("round_and_recenter not traced: %s" % type(e).__name__)
    monitors.trace(ctx, specs)


# ---- generator ----------------------------------------------------------------------------------
def _offset(rng, cls):
    """-> (values, container kind)"""
    kind = ["ndarray", "list", "tuple"][int(rng.integers(0, 3))]
    mag = float(rng.choice([1.0, 1.0, 1.0, 10.0, 0.01]))
    v = rng.uniform(-30, 30, 3) * mag
    if cls == "on_axis":
        v[:2] = 0.0
        if rng.random() < 0.3:
            v[2] = float(rng.integers(1, 40) * rng.choice([-1, 1]))
    elif cls == "zero_offset":
        v[:] = 0.0
    elif cls == "inplane_offset":
        v[2] = 0.0
        q = int(rng.integers(0, 5))          # also the axes of the plane: (-a,0,0), (0,+-a,0)
        if q == 0:
            v[1] = 0.0; v[0] = -abs(v[0])
        elif q == 1:
            v[0] = 0.0
    elif cls == "int_offset":
        v = rng.integers(-25, 26, 3).astype(float)
        if not v[:2].any():
            v[0] = 7.0
        kind = ["int_list", "int_tuple", "int_ndarray"][int(rng.integers(0, 3))]
    elif cls == "half_ties":
        v = rng.integers(-20, 21, 3) / 2.0
        if not v[:2].any():
            v[1] = 2.5
    return v, kind


def _container(v, kind):
    if kind == "ndarray":
        return np.array(v, dtype=float)
    if kind == "list":
        return [float(x) for x in v]
    if kind == "tuple":
        return tuple(float(x) for x in v)
    if kind == "int_list":
        return [int(x) for x in v]
    if kind == "int_tuple":
        return tuple(int(x) for x in v)
    return np.array(v, dtype=np.int64)


def gen(ctx, i, cls):
    rng = ctx.rng(i)
    thorough = ctx.tier == "thorough"
    nmax = 64
    # symmetry order
    r = rng.random()
    if r < 0.45:
        n = int(rng.choice([m for m in NONDIV if m <= (nmax if thorough else 32)]))
    elif r < 0.75:
        n = int(rng.choice(DIV))
    else:
        n = int(rng.integers(1, (nmax if thorough else 32) + 1))
    if cls == "divisor":
        n = int(rng.choice(DIV))
    elif cls == "nondivisor":
        n = int(rng.choice(NONDIV))
    elif cls == "n1":
        n = 1
    elif cls == "n_33_64":
        n = int(rng.integers(33, 65))
    elif cls == "half_ties":
        n = int(rng.choice([1, 2, 4]))
    # number of particles
    N = int(rng.choice([1, 2, 3, 4, 5, 6, 8, 9, 12, 15, 20]))
    if thorough and rng.random() < 0.25:
        N = int(rng.integers(1, 101))
    if cls == "single_particle":
        N = 1
    elif cls == "many_particles":
        N = int(rng.integers(60, 101))
        if not thorough:
            n = min(n, int(rng.choice([2, 3, 4, 6, 7, 8, 9, 10, 11, 12])))
    elif cls == "n_33_64" and not thorough:
        N = min(N, 6)
    if cls != "many_particles" and N * n > 2000:                  # bounds the work; the full 100 x 64 corner is in many_particles
        N = max(1, 2000 // n)
    ori = {"gimbal": "gimbal", "near_gimbal": "near_gimbal", "wide_angles": "wide", "half_ties": "lattice"}.get(cls, "mixed")
    signed = bool(rng.integers(0, 2))
    scale = 200.0
    integer_pos = rng.random() < 0.2
    if cls == "large_signed_pos":
        signed, scale = True, float(rng.choice([3e3, 1e5, 2e6]))
    if cls == "half_ties":
        integer_pos, signed = True, True
    df = gens.motl_table(rng, N, tomos=int(rng.integers(1, 4)), ori=ori, pos_scale=scale, signed=signed,
                         integer_pos=integer_pos)
    if cls == "half_ties":
        a = rng.integers(-4, 5, (N, 3)) * 90.0                    # multiples of 90 degrees: R.Rz.s stays on the half-integer grid
        df["phi"], df["theta"], df["psi"] = a[:, 0], a[:, 1], a[:, 2]
        sh = rng.integers(-6, 7, (N, 3)) / 2.0
        df["shift_x"], df["shift_y"], df["shift_z"] = sh[:, 0], sh[:, 1], sh[:, 2]
    if cls == "gimbal" and rng.random() < 0.3:
        df["phi"] = 0.0; df["psi"] = 0.0; df["theta"] = 0.0      # the identity orientation
    # parents whose three shifts are all exactly 0 (integer and non-integer x,y,z): the whole list in class zero_shift, a
    # fraction of the particles everywhere else; a few more with only one or two shift components exactly 0
    rz = ctx.rng(i, 3)
    zero = np.ones(N, dtype=bool) if cls == "zero_shift" else rz.random(N) < 0.2
    if cls != "zero_shift" and N >= 2 and rz.random() < 0.5:
        zero[int(rz.integers(0, N))] = True
    for c in ("shift_x", "shift_y", "shift_z"):
        df.loc[zero, c] = 0.0
        part = ~zero & (rz.random(N) < 0.1)
        df.loc[part, c] = 0.0
    if cls == "zero_shift":
        mode = int(rz.integers(0, 3))                  # 0: integer x,y,z   1: non-integer   2: mixed within the list
        if mode != 1:
            m = np.ones(N, dtype=bool) if mode == 0 else rz.random(N) < 0.5
            for c in ("x", "y", "z"):
                df.loc[m, c] = np.round(df.loc[m, c])
    n_zero = int(zero.sum())
    index = None
    if cls == "odd_ids_index" or rng.random() < 0.15:
        df["subtomo_id"] = rng.choice(np.arange(1, max(10 ** int(rng.integers(2, 7)), 3 * N)), size=N, replace=False).astype(float)
        index = (rng.integers(0, max(2, N // 2 + 1), N) * 3 + 5) if rng.random() < 0.5 else rng.permutation(N) + 11
    s, kind = _offset(rng, cls)
    sp = SPELLINGS[(i // len(CLASSES)) % len(SPELLINGS)]
    alt = SPELLINGS[((i // len(CLASSES)) + 1 + int(rng.integers(0, len(SPELLINGS) - 1))) % len(SPELLINGS)]
    on_axis = bool(s[0] == 0 and s[1] == 0)
    case = {"i": i, "cls": cls, "df": df, "index": index, "n": n, "spelling": sp, "alt_spelling": alt, "s": s, "s_kind": kind,
            "on_axis": on_axis}
    case["summary"] = {"n": n, "symmetry": repr(spell(n, sp)), "alt": repr(spell(n, alt)), "particles": N,
                       "offset": [float(x) for x in s], "offset_container": kind, "orientation_kind": ori,
                       "index": "default" if index is None else "odd", "class": cls, "parents_with_all_shifts_zero": n_zero,
                       "row0": {k: float(df[k].iloc[0]) for k in ("subtomo_id", "x", "y", "z", "shift_x", "shift_y", "shift_z",
                                                                   "phi", "theta", "psi")}}
    return case


def nontrivial(case):
    return case["n"] >= 2 and not case["on_axis"]


# ---- driver -------------------------------------------------------------------------------------
def _relational(ctx, parent, n, s, out, on_axis, tag):
    r = orc.back_to_centre(parent, s, out)
    if r is not None:
        ctx.check("back_to_centre", r[0], None if r[1] is None else dict(r[1], symmetry=tag))
    r = orc.z_orbit(parent, n, out)
    if r is not None:
        ctx.check("z_orbit", r[0], None if r[1] is None else dict(r[1], symmetry=tag))
    if on_axis:
        pos = orc.centres(out)
        g5 = out["geom5"].to_numpy(dtype=float)
        w = None
        for pid in parent["subtomo_id"].to_numpy(dtype=float):
            p = pos[g5 == pid]
            if len(p) and np.abs(p - p[0]).max() > orc.pos_tol(orc.centres(parent), s):
                w = {"parent_id": float(pid), "positions": p[:4], "offset": s, "symmetry": tag}
                break
        ctx.check("on_axis_coincide", w is None, w)


def _split(ctx, df, index, sym, s_arg, label):
    t = df.copy()
    if index is not None:
        t.index = index
    ok, m = ctx.call("Motl(df)", ctx.cm.Motl, t)
    if not ok:
        return None, None
    ok, res = ctx.call(label, m.split_in_asymmetric_subunits, sym, s_arg)
    if not ok:
        return None, None
    # the `recentre` monitor sits on Motl.update_coordinates; whether the expansion reaches it through that public method is
    # an internal matter of cryoCAT (the result itself is judged by `integral` and `position`), so the driver also applies
    # the step itself, to the parents' list (non-trivial: fractional shifts) - the monitor is reached in either case
    ok2, m2 = ctx.call("Motl(df)", ctx.cm.Motl, t.copy())
    if ok2:
        ctx.call("update_coordinates(parents)", m2.update_coordinates)
    return res.df, t


def run_case(ctx, case):
    n, s = case["n"], case["s"]
    sym = spell(n, case["spelling"])
    out, parent = _split(ctx, case["df"], case["index"], sym, _container(s, case["s_kind"]), "split(%s)" % case["spelling"])
    if out is None:
        return
    _relational(ctx, case["df"], n, s, out, case["on_axis"], repr(sym))
    sym2 = spell(n, case["alt_spelling"])
    out2, _ = _split(ctx, case["df"], case["index"], sym2, np.array(s, dtype=float), "split(%s)" % case["alt_spelling"])
    if out2 is None:
        return
    _relational(ctx, case["df"], n, s, out2, case["on_axis"], repr(sym2))
    ok, w = orc.same_tables(out, out2)
    ctx.check("spelling_agree", ok, None if w is None else dict(w, a=repr(sym), b=repr(sym2)))


# ---- exhaustive sub-space: every n x six spellings x {generic, on-axis, zero} offset ------------------------------
def extra(ctx):
    nmax = 64 if ctx.tier == "thorough" else 32
    covered, calls, nondiv = 0, 0, 0
    for n in range(1, nmax + 1):
        rng = ctx.rng(10 ** 6 + n, 7)
        N = int(rng.integers(2, 5))
        df = gens.motl_table(rng, N, tomos=2, ori="mixed", signed=bool(rng.integers(0, 2)))
        df.loc[0, ["shift_x", "shift_y", "shift_z"]] = 0.0                    # all shifts exactly 0, non-integer x,y,z
        df.loc[1, ["shift_x", "shift_y", "shift_z"]] = 0.0                    # all shifts exactly 0, integer x,y,z
        df.loc[1, ["x", "y", "z"]] = np.round(df.loc[1, ["x", "y", "z"]].to_numpy(dtype=float))
        s = rng.uniform(-25, 25, 3)
        if abs(s[0]) + abs(s[1]) < 1.0:
            s[0] += 5.0
        ctx.cur = {"index": "extra", "cls": "exhaustive", "summary": {"n": n, "particles": N, "offset": [float(x) for x in s]}}
        before = ctx.mon["orientation"]["evals"]
        outs = []
        done = 0
        for sp in SPELLINGS:
            out, _ = _split(ctx, df, None, spell(n, sp), np.array(s), "split(%s)" % sp)
            calls += 1
            if out is not None:
                done += 1
                outs.append((sp, out))
                _relational(ctx, df, n, s, out, False, repr(spell(n, sp)))
        for sp, o in outs[1:]:
            ok, w = orc.same_tables(outs[0][1], o)
            ctx.check("spelling_agree", ok, None if w is None else dict(w, a=outs[0][0], b=sp, n=n))
        for s2 in (np.array([0.0, 0.0, float(s[2])]), np.zeros(3)):
            sp = SPELLINGS[(n + int(s2[2] != 0)) % len(SPELLINGS)]
            out, _ = _split(ctx, df, None, spell(n, sp), s2, "split(%s)" % sp)
            calls += 1
            if out is not None:
                done += 1
                _relational(ctx, df, n, s2, out, True, repr(spell(n, sp)))
        if done == len(SPELLINGS) + 2 and ctx.mon["orientation"]["evals"] - before == len(SPELLINGS) + 2:
            covered += 1
            nondiv += 1 if 360 % n else 0
    ctx.extra["n_range"] = "1..%d" % nmax
    ctx.extra["n_values_covered"] = covered
    ctx.extra["n_values_not_dividing_360_covered"] = nondiv
    ctx.extra["spellings_per_n"] = len(SPELLINGS)
    ctx.extra["offsets_per_n"] = "generic (all %d spellings), on-axis, zero" % len(SPELLINGS)
    ctx.extra["sweep_calls"] = calls
    # out-of-quantifier probes: must be counted out_of_domain, never judged
    rng = ctx.rng(10 ** 6, 8)
    df = gens.motl_table(rng, 3)
    ood0 = ctx.mon["rows_per_parent"]["out_of_domain"]
    for sym in ("D2", "d3", 65, 2.5):
        try:
            ctx.cm.Motl(df.copy()).split_in_asymmetric_subunits(sym, np.array([4.0, 1.0, 2.0]))
        except Exception:
            pass
    ctx.extra["out_of_domain_probes_counted"] = ctx.mon["rows_per_parent"]["out_of_domain"] - ood0
