"""C10 - Cyclic symmetry expansion places sub-units on the symmetry orbit.

Call monitors (DESIGN.md 4/C10), attached in place, evaluated on EVERY in-domain call of
Motl.split_in_asymmetric_subunits (C-symmetries only; D-symmetries are outside the property and counted out-of-domain):
  rows_per_parent   n rows per parent, every geom5 is a parent's subtomo_id
  subunit_index     each parent's rows carry geom2 = 1..n, each once
  orientation       row with geom2 = k+1 has orientation R.Rz(360k/n)            (hand-written matrices, vmon.oracles.so3)
  position          its complete position is centre + R.Rz(360k/n).s
  unique_ids        the new subtomo_id values are pairwise different
  inherited         score, geom1, tomo_id, object_id, subtomo_mean, geom3, geom4, class are the parent's
  integral          x, y, z integral and |shift| <= 0.5
  recentre          post(Motl.update_coordinates) (the last step of the expansion): complete positions unchanged row by row,
                    x,y,z integral, |shift| <= 0.5
Driver-side relational clauses (on the returned table only):
  back_to_centre    every sub-unit, moved back by its own orientation applied to s, lands on the parent's centre
  z_orbit           the n sub-units share the parent's z-axis; geom2 -> geom2+1 (and n -> 1) is a turn of 360/n about it, for
                    orientations (G_k^T G_k+1 = Rz(360/n)) and for the arms position - centre (Rodrigues about R.ez)
  on_axis_coincide  s on the axis: all n sub-units of a parent have the same complete position
  spelling_agree    'Cn', 'cn', n, float(n), np.int64(n) and np.float64(n) give the same sub-units: after ordering by (geom5, geom2) equal parent, index,
                    inherited fields, complete positions and orientation matrices (numbering and Euler spelling not compared)
  repeat_agree      the same expansion asked twice of one UNCHANGED Motl object (other expansions in between) gives the same sub-units
Histories (classes history_*): ONE Motl object is expanded, edited IN PLACE (angles via apply_rotation / flip_handedness /
column assignment / the caller's own DataFrame handle; positions; ids; row order; other fields; the caller-owned offset
array) and expanded again - every expansion is judged by the call monitors against the list as it is at the time of THAT call.
Exhaustive sub-space (extra): every n in 1..64 (both tiers) x the six spellings x {generic, on-axis, zero} offset;
option-pair grid: spelling x offset container x offset kind x index layout, every combination several times.
"""
import math
import types

import numpy as np
import pandas as pd

from vmon import gens, monitors
from vmon.oracles import c10_oracle as orc
from vmon.oracles import so3

PROP = "C10"
RULE = ("cases = generated particle lists (1..100 particles; stratified over orientation kinds incl. gimbal lock, position "
        "kinds incl. negative/large/half-integer ties, parents with all shifts exactly 0, identifier/index layouts) x symmetry order n (1..64; divisors and "
        "non-divisors of 360) x spelling ('Cn','cn',int,integral float,np.int64,np.float64; spelling of case i = (i // #classes) mod 6) x offset "
        "s (generic, in-plane, on-axis, zero, integer lists/tuples); plus glued lists with repeated index labels, theta outside [0,180], "
        "block-boundary row counts (N*n = 2**k-1, 2**k, 2**k+1; 100 x 64), ids/coordinates at 1e5, 2**24, 2**31, 2**53 and positions an ulp from "
        "a rounding tie, exact duplicate poses, and three-step histories on ONE Motl object (expand, edit in place, expand again); non-trivial = n >= 2 and s has a non-zero in-plane "
        "component (n distinct poses at n distinct places); distinct by digest of (n, spelling, #particles, s, class, first pose); "
        "the exhaustive sweep over n is reported separately under observed.n_values_covered")
ASSUMPTIONS = [
    "offset s = the xyz_shift argument read as a CARTESIAN vector (sx, sy, sz) in the PARENT particle's own frame (the frame "
    "in which the parent's z-axis is the symmetry axis): cryoCAT converts it internally to cylindrical (rho, atan2(sy,sx), sz), "
    "adds 360k/n to the azimuth and converts back, i.e. forms Rz(360k/n).s; the oracle never does that conversion, it "
    "multiplies hand-written matrices: expected position of sub-unit k = (x,y,z)+(shift) + Rz(psi)Rx(theta)Rz(phi).Rz(360k/n).s",
    "k counts from 0 for geom2 = 1 (geom2 = k+1); rows are attributed to parents by geom5 == parent subtomo_id and to k by "
    "geom2, never by row order (the statement does not fix an output order)",
    "orientation R of a particle = Rz(psi).Rx(theta).Rz(phi) (extrinsic zxz, active, DESIGN.md section 3); 'rotation about the "
    "parent's own z-axis' = right-multiplication by Rz",
    "'a number' = Python int, integral Python float, numpy integer or integral numpy float (six spellings are generated: 'Cn', "
    "'cn', int, float, np.int64, np.float64); bool, non-integral floats, strings other than C<n>/c<n> without leading zeros, "
    "and n outside 1..64 are out of domain",
    "input lists have pairwise different subtomo_id (otherwise 'its parent' is ambiguous), finite fields, |position| <= 1e10",
    "orientations are compared entry-wise with 1e-6 (not 1e-9): the result is only observable as zxz Euler angles and the "
    "Euler extraction treats |theta| < 1e-7 rad as gimbal lock (measured loss 3.5e-9 on near-gimbal inputs); positions with "
    "1e-9*max(1,|s|) + 1e-13*max|centre|",
    "|shift| <= 0.5 is checked exactly as stated (either rounding direction at a half-integer tie is accepted)",
    "out of domain by ruling (forms, not values; the unchanged tree fails on them): offset given as a numpy/pandas container of "
    "dtype int8/int16/float16/float32/unsigned (cryoCAT computes rho in that dtype: int8 [13,-7,5] -> NaN positions, float32 -> "
    "4e-7 px error); float64/int64/int32 arrays, non-contiguous / negative-stride / read-only views, pd.Series, lists and tuples are in",
    "out of domain by ruling: particle lists whose shift_* or phi/theta/psi columns are not float64 or whose x,y,z are float32 "
    "(pandas 3 raises TypeError when the float results are written into such columns); integer-typed x,y,z, integer-typed "
    "id/label columns and a float32 score are in",
    "out of domain by ruling: symmetry given as a 0-d numpy array (UnboundLocalError on the unchanged tree)",
    "any column order of the 20 fields, any row index (repeated, reversed, gapped labels), DataFrame.attrs and extra attributes on "
    "the Motl object are inside the quantifier; an object returned by split / update_coordinates / shift_positions is judged like "
    "a fresh list with the same values",
]

CLASSES = ["divisor", "nondivisor", "n1", "n_33_64", "on_axis", "zero_offset", "inplane_offset", "int_offset",
           "single_particle", "many_particles", "gimbal", "near_gimbal", "wide_angles", "half_ties", "large_signed_pos",
           "odd_ids_index", "zero_shift", "history_reorient", "history_move", "history_symmetry", "glued_index",
           "theta_outside", "block_sizes", "repr_bounds", "duplicates", "chained", "constant_columns"]
SPELLINGS = ["Cn", "cn", "int", "float", "np.int64", "np.float64"]
CLAUSES = ["rows_per_parent", "subunit_index", "orientation", "position", "unique_ids", "inherited", "integral"]
NONDIV = [n for n in range(1, 65) if 360 % n]
DIV = [n for n in range(1, 65) if 360 % n == 0]
# block-boundary sizes: (N, n) with N <= 100, n <= 64 and N*n = 2**k - 1, 2**k or 2**k + 1 (k = 6..12)
BLOCK_PAIRS = {}
for _k in range(6, 13):
    for _d in (-1, 0, 1):
        _t = 2 ** _k + _d
        _v = [(_N, _t // _N) for _N in range(1, 101) if _t % _N == 0 and 1 <= _t // _N <= 64]
        if _v:
            BLOCK_PAIRS[_t] = _v
BLOCK_TARGETS = sorted(BLOCK_PAIRS)
BLOCK_N = [63, 64, 65, 99, 100, 31, 32, 33]
ANGLE_EDITS = ["apply_rotation", "flip_handedness", "assign_angle_columns", "loc_assign_angles", "caller_handle_angles",
               "iloc_some_rows_angles", "flip_handedness_dims"]
MOVE_EDITS = ["add_to_columns", "loc_assign_shifts", "scale_coordinates", "iloc_some_rows_pos", "renumber_ids", "reorder_rows",
              "edit_fields", "caller_handle_pos"]
CONTAINERS = ["ndarray", "list", "tuple", "int_list", "int_tuple", "int_ndarray", "view_noncontig", "view_negstride_readonly",
              "series"]
FLOAT_CONTAINERS = ["ndarray", "list", "tuple", "view_noncontig", "view_negstride_readonly", "series"]
# column layouts of the caller's DataFrame (Motl() accepts any order of the 20 names)
LAYOUTS = ["canonical", "reversed", "sorted_desc", "zyx_dict", "random_perm", "sorted_asc", "shifts_first_zyx"]
IKINDS = ["default", "glued", "reversed", "gapped_permuted", "default"]


def plan(tier):
    # floors are stated from the DRIVER's own calls only (tools/audit_call_structure.sh): every split and every
    # update_coordinates counted here is called directly by run_case / extra
    if tier == "quick":
        call_min = 1500
        return dict(n_cases=20 * len(CLASSES), shards=4, classes=CLASSES, timeout_s=900,
                    min_evals=dict({c: call_min for c in CLAUSES}, recentre=800, back_to_centre=call_min, z_orbit=call_min,
                                   spelling_agree=450, on_axis_coincide=300, repeat_agree=30),
                    min_anchor_calls={"Motl.split_in_asymmetric_subunits": call_min})
    call_min = 6000
    return dict(n_cases=120 * len(CLASSES), shards=16, classes=CLASSES, timeout_s=3000,
                min_evals=dict({c: call_min for c in CLAUSES}, recentre=4200, back_to_centre=call_min, z_orbit=call_min,
                               spelling_agree=2200, on_axis_coincide=500, repeat_agree=150),
                min_anchor_calls={"Motl.split_in_asymmetric_subunits": call_min})


def spell(n, sp):
    return {"Cn": "C%d" % n, "cn": "c%d" % n, "int": int(n), "float": float(n), "np.int64": np.int64(n),
            "np.float64": np.float64(n)}[sp]


# ---- call monitors ------------------------------------------------------------------------------
def _split_applicable(A):
    n, _ = orc.parse_symmetry(A["symmetry"])
    if n is None or orc.offset_vector(A["xyz_shift"]) is None or not orc.offset_form_in_domain(A["xyz_shift"]):
        return False
    df = getattr(A["self"], "df", None)
    return orc.table_in_domain(df) and orc.table_form_in_domain(df)


def _split_snapshot(A):
    n, sp = orc.parse_symmetry(A["symmetry"])
    return {"parent": A["self"].df.copy(), "n": n, "spelling": sp, "s": orc.offset_vector(A["xyz_shift"])}


def _split_post(ctx, A, OLD, result):
    out = getattr(result, "df", None)
    if out is None:
        ctx.check("rows_per_parent", False, {"returned": type(result).__name__})
        return
    verdicts = orc.judge(OLD["parent"], OLD["n"], OLD["s"], out)
    for name, (ok, w) in verdicts.items():
        if w is not None:
            w = dict(w, symmetry=repr(A["symmetry"]), particles=len(OLD["parent"]))
        ctx.check(name, ok, w)
    ctx.extra["calls_spelling_" + OLD["spelling"]] = ctx.extra.get("calls_spelling_" + OLD["spelling"], 0) + 1
    if 360 % OLD["n"]:
        ctx.extra["calls_n_not_dividing_360"] = ctx.extra.get("calls_n_not_dividing_360", 0) + 1
    try:
        sh = out[["shift_x", "shift_y", "shift_z"]].to_numpy(dtype=float)
        xyz = out[["x", "y", "z"]].to_numpy(dtype=float)
        ctx.extra["output_cells_exactly_at_half_tie"] = ctx.extra.get("output_cells_exactly_at_half_tie", 0) + int((np.abs(sh) == 0.5).sum())
        ctx.extra["output_rows_with_negative_coordinate"] = ctx.extra.get("output_rows_with_negative_coordinate", 0) + int((xyz < 0).any(axis=1).sum())
        ctx.extra["output_rows_judged"] = ctx.extra.get("output_rows_judged", 0) + len(out)
        psh = OLD["parent"][["shift_x", "shift_y", "shift_z"]].to_numpy(dtype=float)
        pxyz = OLD["parent"][["x", "y", "z"]].to_numpy(dtype=float)
        z = (psh == 0).all(axis=1)
        ctx.extra["parents_with_all_shifts_zero"] = ctx.extra.get("parents_with_all_shifts_zero", 0) + int(z.sum())
        ctx.extra["such_parents_with_non_integer_xyz"] = ctx.extra.get("such_parents_with_non_integer_xyz", 0) + int((z & (pxyz != np.round(pxyz)).any(axis=1)).sum())
    except Exception:
        pass


def _uc_applicable(A):
    df = getattr(A["self"], "df", None)
    try:
        v = df[["x", "y", "z", "shift_x", "shift_y", "shift_z"]].to_numpy(dtype=float)
    except Exception:
        return False
    return bool(len(v) >= 1 and np.all(np.isfinite(v)) and np.abs(v).max() <= orc.POS_MAX)


def _uc_snapshot(A):
    return orc.centres(A["self"].df)


def _uc_post(ctx, A, before, result):
    df = A["self"].df
    if len(df) != len(before):
        ctx.check("recentre", False, {"rows_before": len(before), "rows_after": len(df)})
        return
    after = orc.centres(df)
    xyz = df[["x", "y", "z"]].to_numpy(dtype=float)
    sh = df[["shift_x", "shift_y", "shift_z"]].to_numpy(dtype=float)
    tol = 1e-9 + 1e-13 * float(np.abs(before).max())
    moved = ~(np.abs(after - before) <= tol)
    bad = moved | ~(xyz == np.round(xyz)) | ~(np.abs(sh) <= 0.5)
    w = None
    if bad.any():
        r = int(np.argwhere(bad)[0][0])
        w = {"row": r, "complete_position_before": before[r], "after": after[r], "xyz": xyz[r], "shift": sh[r],
             "cells_moved": int(moved.sum()), "cells_bad": int(bad.sum())}
    ctx.check("recentre", w is None, w)


def setup(ctx):
    from cryocat import cryomotl
    ctx.cm = cryomotl
    f_split = monitors.wrap(ctx, cryomotl.Motl, "split_in_asymmetric_subunits", "rows_per_parent", _split_post,
                            _split_applicable, _split_snapshot)
    f_uc = monitors.wrap(ctx, cryomotl.Motl, "update_coordinates", "recentre", _uc_post, _uc_applicable, _uc_snapshot)
    ctx.declare(*CLAUSES)
    ctx.declare("back_to_centre", "z_orbit", "on_axis_coincide", "spelling_agree", "repeat_agree")
    specs = [("Motl.split_in_asymmetric_subunits", f_split,
              {"string_spelling": "re.findall", "string_is_c": ("s_type = 1", 0), "string_is_d": "s_type = 2",
               "numeric_spelling": ("s_type = 1", 1), "cyclic_angles": ("n_subunits = nfold", 0),
               "dihedral_angles": "n_subunits = nfold * 2", "dihedral_zflip": "rep_z[1::2] *= -1",
               "recentre_call": "new_motl.update_coordinates()"}),
             ("Motl.update_coordinates", f_uc)]
    try:        # the row worker of update_coordinates is a nested function: trace its code object too
        inner = [c for c in f_uc.__code__.co_consts if isinstance(c, types.CodeType) and c.co_name == "round_and_recenter"]
        if inner:
            specs.append(("Motl.update_coordinates.round_and_recenter", types.FunctionType(inner[0], f_uc.__globals__)))
    except Exception as e:
        ctx.notes.append("round_and_recenter not traced: %s" % type(e).__name__)
    monitors.trace(ctx, specs)


# ---- generator ----------------------------------------------------------------------------------
def _offset(rng, cls):
    """-> (values, container kind)"""
    kind = FLOAT_CONTAINERS[int(rng.integers(0, len(FLOAT_CONTAINERS)))]
    mag = float(rng.choice([1.0, 1.0, 1.0, 10.0, 0.01]))
    v = rng.uniform(-30, 30, 3) * mag
    if cls == "on_axis":
        v[:2] = 0.0
        if rng.random() < 0.3:
            v[2] = float(rng.integers(1, 40) * rng.choice([-1, 1]))
    elif cls == "zero_offset":
        v[:] = 0.0
        if rng.random() < 0.5:
            v = np.array([-0.0, 0.0, -0.0])
    elif cls == "inplane_offset":
        v[2] = 0.0
        q = int(rng.integers(0, 5))          # also the axes of the plane: (-a,0,0), (0,+-a,0)
        if q == 0:
            v[1] = 0.0; v[0] = -abs(v[0])
        elif q == 1:
            v[0] = 0.0
    elif cls == "int_offset":
        v = rng.integers(-25, 26, 3).astype(float)
        if not v[:2].any():
            v[0] = 7.0
        kind = ["int_list", "int_tuple", "int_ndarray"][int(rng.integers(0, 3))]
    elif cls == "half_ties":
        v = rng.integers(-20, 21, 3) / 2.0
        if not v[:2].any():
            v[1] = 2.5
    return v, kind


def _container(v, kind):
    """the offset as the caller holds it; the expected value is always computed from the values the object holds"""
    if kind == "ndarray":
        return np.array(v, dtype=float)
    if kind == "view_noncontig":                       # every third element of a longer array / a column of a C-ordered matrix
        if float(v[0]) >= 0:
            big = np.full(9, 777.0)
            big[::3] = v
            return big[::3]
        M = np.full((3, 4), -555.0)
        M[:, 2] = v
        return M[:, 2]
    if kind == "view_negstride_readonly":              # negative-stride view, not writeable
        a = np.array(v, dtype=float)[::-1].copy()
        w = a[::-1]
        w.flags.writeable = False
        return w
    if kind == "series":
        return pd.Series(np.array(v, dtype=float), index=[7, 7, 3])
    if kind == "list":
        return [float(x) for x in v]
    if kind == "tuple":
        return tuple(float(x) for x in v)
    if kind == "int_list":
        return [int(x) for x in v]
    if kind == "int_tuple":
        return tuple(int(x) for x in v)
    return np.array(v, dtype=np.int64 if int(v[0]) % 2 == 0 else np.int32)


def _plant_repr(rq, df, j):
    """representability boundaries: adjacent ids just above 1e5 / 2**24 / 2**31 / below 2**53; coordinates just above 1e5,
    2**24, 2**31; complete positions an ulp / 1e-9..5e-7 below (and exactly on) a rounding tie, shifts of nextafter(0.5, 0)"""
    N = len(df)
    base = [100000.0, 2.0 ** 24 - 2, 2.0 ** 31 - 2, 2.0 ** 53 - N - 3][j % 4]
    df["subtomo_id"] = base + 1.0 + rq.permutation(N)
    ck = str(rq.choice(["small", "1e5", "2^24", "2^31"], p=[0.4, 0.2, 0.2, 0.2]))
    off = {"1e5": 1e5, "2^24": 2.0 ** 24, "2^31": 2.0 ** 31, "small": 0.0}[ck]
    for c in ("x", "y", "z"):
        df[c] = off + np.round(rq.uniform(1, 60, N)) * (1.0 if ck != "small" else rq.choice([-1.0, 1.0], N))
        if ck == "small":          # around 0 the spacing of v is finer than that of v + 0.5: 0.5 - ulp is the classic trap
            near0 = rq.random(N) < 0.5
            df.loc[near0, c] = rq.choice([0.0, 0.0, 0.0, 1.0, -1.0], int(near0.sum()))
    ulp_ties = 0
    for r in range(N):
        kind = int(rq.integers(0, 6))
        for c in ("x", "y", "z"):
            k = float(df.at[r, c])
            if kind == 0:                                        # an ulp below the tie, no shift
                df.at[r, c] = np.nextafter(k + 0.5, -np.inf); df.at[r, "shift_" + c] = 0.0; ulp_ties += 1
            elif kind == 1:                                      # exactly on the tie
                df.at[r, c] = k + 0.5; df.at[r, "shift_" + c] = 0.0
            elif kind == 2:                                      # 1e-9 .. 5e-7 below the tie
                df.at[r, c] = k + 0.5 - float(rq.choice([1e-9, 3e-8, 5e-7])); df.at[r, "shift_" + c] = 0.0
            elif kind == 3:                                      # integer coordinate, shift just below / on one half
                df.at[r, "shift_" + c] = float(rq.choice([np.nextafter(0.5, 0.0), -np.nextafter(0.5, 0.0), 0.5, -0.5, 0.5 - 1e-9]))
            elif kind == 4:                                      # an ulp above the lower tie
                df.at[r, c] = np.nextafter(k - 0.5, np.inf); df.at[r, "shift_" + c] = 0.0; ulp_ties += 1
            # kind 5: ordinary fractional shift as generated
    return {"ids_from": base + 1.0, "coordinates": ck, "cells_an_ulp_from_a_tie": ulp_ties}


def _constant_columns(rq, df, j):
    """value-specific semantics: columns that are 0 everywhere / hold a single distinct value"""
    N = len(df)
    picks = [["class", "score"], ["tomo_id", "object_id"], ["phi", "theta", "psi"], ["geom1", "geom2", "geom3", "geom4", "geom5"],
             ["x", "y", "z"], ["shift_x", "shift_y", "shift_z"], ["subtomo_mean", "score", "class", "tomo_id", "object_id"]]
    for grp in (picks[j % len(picks)], picks[int(rq.integers(0, len(picks)))]):
        zero = rq.random() < 0.6
        for c in grp:
            df[c] = 0.0 if zero else float(df[c].iloc[0])


def _plan_chain(rq, j, n, s):
    """the object another anchor returned is the input: kinds of hand-over"""
    kinds = ["result_object", "result_df_permuted", "result_modified_attrs", "after_update_coordinates", "after_shift_positions",
             "deepcopy_of_result", "subset_of_result"]
    return {"kind": kinds[j % len(kinds)], "n2": int(rq.choice([2, 3, 4, 5, 7, 8])), "s2": rq.uniform(-20, 20, 3),
            "layout2": LAYOUTS[int(rq.integers(1, len(LAYOUTS)))]}


def _layout_columns(layout, seed):
    C = list(gens.COLS)
    if layout == "reversed":
        return C[::-1]
    if layout == "sorted_desc":
        return sorted(C, reverse=True)
    if layout == "sorted_asc":
        return sorted(C)
    if layout == "zyx_dict":
        return ["subtomo_id", "tomo_id", "z", "y", "x", "shift_z", "shift_y", "shift_x", "psi", "theta", "phi", "score", "class",
                "object_id", "subtomo_mean", "geom1", "geom2", "geom3", "geom4", "geom5"]
    if layout == "shifts_first_zyx":
        first = ["shift_z", "shift_x", "shift_y", "psi", "phi", "theta", "y", "z", "x"]
        return first + [c for c in C if c not in first]
    if layout == "random_perm":
        return [C[k] for k in np.random.default_rng([int(seed), 77]).permutation(len(C))]
    return C


def _plan_history(rq, cls, j, n, s, thorough):
    """steps on ONE Motl object; every split is judged against the list as it is at that moment"""
    nmax = 32
    def other_n():
        return int(rq.choice([m for m in (2, 3, 4, 5, 6, 7, 8, 9, 11, 12, 13, 16, 24, nmax) if m != n]))
    def other_s():
        v = rq.uniform(-30, 30, 3)
        r = rq.random()
        if r < 0.2:
            v[:2] = 0.0
        elif r < 0.3:
            v[:] = 0.0
        return v
    def split(nn, ss):
        return {"op": "split", "n": int(nn), "spelling": SPELLINGS[int(rq.integers(0, len(SPELLINGS)))], "s": np.array(ss, dtype=float)}
    if cls == "history_symmetry":
        n2 = other_n()
        s2 = other_s() if rq.random() < 0.7 else np.array(s, dtype=float)
        return [split(n, s), split(n2, s2), dict(split(n, s), repeat_of=0), dict(split(n2, s2), repeat_of=1)]
    edits = ANGLE_EDITS if cls == "history_reorient" else MOVE_EDITS
    steps = [split(n, s), {"op": "edit", "name": edits[j % len(edits)]},
             split(n if rq.random() < 0.5 else other_n(), s if rq.random() < 0.5 else other_s())]
    if rq.random() < 0.5:
        steps += [{"op": "edit", "name": edits[int(rq.integers(0, len(edits)))]}, split(other_n(), other_s())]
    return steps


def gen(ctx, i, cls):
    rng = ctx.rng(i)
    thorough = ctx.tier == "thorough"
    nmax = 64
    # symmetry order
    r = rng.random()
    if r < 0.45:
        n = int(rng.choice([m for m in NONDIV if m <= (nmax if thorough else 32)]))
    elif r < 0.75:
        n = int(rng.choice(DIV))
    else:
        n = int(rng.integers(1, (nmax if thorough else 32) + 1))
    if cls == "divisor":
        n = int(rng.choice(DIV))
    elif cls == "nondivisor":
        n = int(rng.choice(NONDIV))
    elif cls == "n1":
        n = 1
    elif cls == "n_33_64":
        n = int(rng.integers(33, 65))
    elif cls == "half_ties":
        n = int(rng.choice([1, 2, 4]))
    # number of particles
    N = int(rng.choice([1, 2, 3, 4, 5, 6, 8, 9, 12, 15, 20]))
    if thorough and rng.random() < 0.25:
        N = int(rng.integers(1, 101))
    if cls == "single_particle":
        N = 1
    elif cls == "many_particles":
        N = int(rng.integers(60, 101))
        if not thorough:
            n = min(n, int(rng.choice([2, 3, 4, 6, 7, 8, 9, 10, 11, 12])))
    elif cls == "n_33_64" and not thorough:
        N = min(N, 6)
    elif cls == "block_sizes":
        if i // len(CLASSES) == 0:
            N, n = orc.PARTICLES_MAX, orc.N_MAX                   # the largest list x the largest order of the quantifier
        elif rng.random() < 0.3:
            N = int(rng.choice(BLOCK_N))
            n = int(rng.choice([1, 2, 3, 7, 8, 16, 31, 32, 33, 63, 64]))
            if not thorough and N * n > 2200:
                n = max(1, 2200 // N)
        else:
            pool = BLOCK_TARGETS if (thorough or rng.random() < 0.12) else [t for t in BLOCK_TARGETS if t <= 1025]
            pairs = BLOCK_PAIRS[pool[(i // len(CLASSES)) % len(pool)]]          # cycles through the row counts
            N, n = pairs[int(rng.integers(0, len(pairs)))]
    elif cls == "glued_index":
        g = int(rng.choice([2, 2, 3, 4]))                         # rows per index label; n shares the factor g with it
        n = g * int(rng.integers(1, 32 // g + 1))
        N = g * int(rng.integers(1, 11))
    elif cls.startswith("history"):
        N = int(rng.choice([1, 2, 3, 4, 6, 8, 12]))
        n = min(n, 32)
    elif cls == "duplicates":
        N = 2 * int(rng.integers(1, 8))
    elif cls == "chained":
        N = int(rng.choice([1, 2, 3, 4]))
        n = int(rng.choice([2, 3, 4, 5, 6, 7]))
    if cls not in ("many_particles", "block_sizes") and N * n > 2000:                  # bounds the work; the full 100 x 64 corner is in many_particles
        N = max(1, 2000 // n)
    ori = {"gimbal": "gimbal", "near_gimbal": "near_gimbal", "wide_angles": "wide", "half_ties": "lattice"}.get(cls, "mixed")
    signed = bool(rng.integers(0, 2))
    scale = 200.0
    integer_pos = rng.random() < 0.2
    if cls == "large_signed_pos":
        signed, scale = True, float(rng.choice([3e3, 1e5, 2e6]))
    if cls == "half_ties":
        integer_pos, signed = True, True
    df = gens.motl_table(rng, N, tomos=int(rng.integers(1, 4)), ori=ori, pos_scale=scale, signed=signed,
                         integer_pos=integer_pos)
    if cls == "half_ties":
        a = rng.integers(-4, 5, (N, 3)) * 90.0                    # multiples of 90 degrees: R.Rz.s stays on the half-integer grid
        df["phi"], df["theta"], df["psi"] = a[:, 0], a[:, 1], a[:, 2]
        sh = rng.integers(-6, 7, (N, 3)) / 2.0
        df["shift_x"], df["shift_y"], df["shift_z"] = sh[:, 0], sh[:, 1], sh[:, 2]
    if cls == "gimbal" and rng.random() < 0.3:
        df["phi"] = 0.0; df["psi"] = 0.0; df["theta"] = 0.0      # the identity orientation
    # parents whose three shifts are all exactly 0 (integer and non-integer x,y,z): the whole list in class zero_shift, a
    # fraction of the particles everywhere else; a few more with only one or two shift components exactly 0
    rz = ctx.rng(i, 3)
    zero = np.ones(N, dtype=bool) if cls == "zero_shift" else rz.random(N) < 0.2
    if cls != "zero_shift" and N >= 2 and rz.random() < 0.5:
        zero[int(rz.integers(0, N))] = True
    for c in ("shift_x", "shift_y", "shift_z"):
        df.loc[zero, c] = 0.0
        part = ~zero & (rz.random(N) < 0.1)
        df.loc[part, c] = 0.0
    if cls == "zero_shift":
        mode = int(rz.integers(0, 3))                  # 0: integer x,y,z   1: non-integer   2: mixed within the list
        if mode != 1:
            m = np.ones(N, dtype=bool) if mode == 0 else rz.random(N) < 0.5
            for c in ("x", "y", "z"):
                df.loc[m, c] = np.round(df.loc[m, c])
    n_zero = int(zero.sum())
    rq = ctx.rng(i, 4)
    # theta < 0 or in (180, 360) (what flip_handedness produces): the whole list in theta_outside, part of the list elsewhere
    if cls == "theta_outside" or (ori == "mixed" and rq.random() < 0.25):
        th = rq.uniform(0, 180, N)
        oth = np.where(rq.random(N) < 0.5, -th, 180.0 + th)
        lat = rq.random(N) < 0.15
        oth[lat] = rq.choice([-90.0, -180.0, 270.0, -45.0, 225.0, 359.5, -0.5], int(lat.sum()))
        pick = np.ones(N, dtype=bool) if cls == "theta_outside" else rq.random(N) < 0.5
        df.loc[pick, "theta"] = oth[pick]
    if cls == "duplicates":                                       # exact duplicates: same pose, different id and score
        h = N // 2
        pose = ["x", "y", "z", "shift_x", "shift_y", "shift_z", "phi", "theta", "psi"]
        same_all = rq.random() < 0.3
        for c in (gens.COLS if same_all else pose):
            if c != "subtomo_id":
                df.loc[h:, c] = df[c].to_numpy()[:h]
        if not same_all:
            df["score"] = rq.permutation(np.arange(N)) / float(N)
    repr_note = None
    if cls == "repr_bounds":
        repr_note = _plant_repr(rq, df, i // len(CLASSES))
    index = None
    if cls == "odd_ids_index" or (cls != "repr_bounds" and rng.random() < 0.15):
        df["subtomo_id"] = rng.choice(np.arange(1, max(10 ** int(rng.integers(2, 7)), 3 * N)), size=N, replace=False).astype(float)
        index = (rng.integers(0, max(2, N // 2 + 1), N) * 3 + 5) if rng.random() < 0.5 else rng.permutation(N) + 11
    glued = None
    if cls == "glued_index" or (cls.startswith("history") and N >= 2 and rq.random() < 0.3):
        g = math.gcd(N, n) if cls == "glued_index" else 2
        g = g if 2 <= g <= N else 2
        if rq.random() < 0.7:
            m = -(-N // g)
            glued = [m] * (N // m) + ([N % m] if N % m else [])      # equal pieces: every label g times
        else:
            a = int(rq.integers(1, N))
            glued = [a, N - a]
        index = None
    j, k_cls = i // len(CLASSES), i % len(CLASSES)
    layout = LAYOUTS[(j + k_cls) % len(LAYOUTS)]
    ikind = IKINDS[(j + 2 * k_cls) % len(IKINDS)]
    if index is None and glued is None and N >= 2:
        if ikind == "glued":
            glued = [N // 2, N - N // 2]
        elif ikind == "reversed":
            index = np.arange(N)[::-1]
        elif ikind == "gapped_permuted":
            index = rq.permutation(N) * 3 + 5
    # safe dtype variants (values unchanged): integer-typed x,y,z where they are whole numbers, integer id/label columns, float32 score
    dtypes = {}
    if rq.random() < 0.3:
        for c in ("subtomo_id", "tomo_id", "object_id", "class", "geom3"):
            if df[c].abs().max() < 2.0 ** 52:
                dtypes[c] = "int64"
    if rq.random() < 0.5 and bool((df[["x", "y", "z"]].to_numpy() == np.round(df[["x", "y", "z"]].to_numpy())).all()) \
            and df[["x", "y", "z"]].abs().to_numpy().max() < 2.0 ** 30:
        for c in ("x", "y", "z"):
            dtypes[c] = "int32" if rq.random() < 0.5 else "int64"
    attrs = rq.random() < 0.3
    if rq.random() < 0.3:                                         # class 0 / score 0 / tomogram 0 rows
        z0 = rq.random(N) < 0.6
        df.loc[z0, "class"] = 0.0
        df.loc[z0, "score"] = 0.0
    if cls == "constant_columns":
        _constant_columns(rq, df, j)
    s, kind = _offset(rng, cls)
    if cls == "repr_bounds":
        mode = (i // len(CLASSES)) % 4
        if mode in (0, 3):
            s[:] = 0.0
        elif mode == 1:                                           # on-axis offset on the identity orientation: x, y untouched
            s[:2] = 0.0
            df["phi"] = 0.0; df["theta"] = 0.0; df["psi"] = 0.0
    history = None
    if cls.startswith("history"):
        history = _plan_history(rq, cls, i // len(CLASSES), n, s, thorough)
    sp = SPELLINGS[(i // len(CLASSES)) % len(SPELLINGS)]
    alt = SPELLINGS[((i // len(CLASSES)) + 1 + int(rng.integers(0, len(SPELLINGS) - 1))) % len(SPELLINGS)]
    on_axis = bool(s[0] == 0 and s[1] == 0)
    chain = _plan_chain(rq, j, n, s) if cls == "chained" else None
    case = {"i": i, "cls": cls, "df": df, "index": index, "glued": glued, "layout": layout, "dtypes": dtypes, "attrs": attrs,
            "chain": chain, "n": n, "spelling": sp, "alt_spelling": alt, "s": s,
            "s_kind": kind, "on_axis": on_axis, "history": history}
    case["summary"] = {"n": n, "symmetry": repr(spell(n, sp)), "alt": repr(spell(n, alt)), "particles": N,
                       "offset": [float(x) for x in s], "offset_container": kind, "orientation_kind": ori,
                       "index": ("glued %s" % glued) if glued else ("default" if index is None else "odd"), "class": cls,
                       "parents_with_all_shifts_zero": n_zero, "planted": repr_note, "column_layout": layout,
                       "column_dtypes": dtypes, "attrs": attrs, "chain": chain and chain["kind"],
                       "history": None if history is None else [(st["op"], st.get("name") or "n=%d %s" % (st["n"], st["spelling"]))
                                                                for st in history],
                       "row0": {k: float(df[k].iloc[0]) for k in ("subtomo_id", "x", "y", "z", "shift_x", "shift_y", "shift_z",
                                                                   "phi", "theta", "psi")}}
    return case


def nontrivial(case):
    return case["n"] >= 2 and not case["on_axis"]


# ---- driver -------------------------------------------------------------------------------------
def _relational(ctx, parent, n, s, out, on_axis, tag):
    r = orc.back_to_centre(parent, s, out)
    if r is not None:
        ctx.check("back_to_centre", r[0], None if r[1] is None else dict(r[1], symmetry=tag))
    r = orc.z_orbit(parent, n, out)
    if r is not None:
        ctx.check("z_orbit", r[0], None if r[1] is None else dict(r[1], symmetry=tag))
    if on_axis:
        pos = orc.centres(out)
        g5 = out["geom5"].to_numpy(dtype=float)
        w = None
        for pid in parent["subtomo_id"].to_numpy(dtype=float):
            p = pos[g5 == pid]
            if len(p) and np.abs(p - p[0]).max() > orc.pos_tol(orc.centres(parent), s):
                w = {"parent_id": float(pid), "positions": p[:4], "offset": s, "symmetry": tag}
                break
        ctx.check("on_axis_coincide", w is None, w)


def _table(df, index=None, glued=None, layout=None, seed=0, dtypes=None, attrs=False):
    """the caller's table: column layout (built field by field from a dict in that order), safe dtype variants, default index,
    an odd index, or pieces glued with pd.concat without ignore_index (repeated labels), optional DataFrame.attrs"""
    t = df.copy()
    if layout and layout != "canonical":
        t = pd.DataFrame({c: t[c].to_numpy() for c in _layout_columns(layout, seed)})
    for c, dt in (dtypes or {}).items():
        t[c] = t[c].astype(dt)
    if attrs:
        t.attrs = {"origin": "glued from two lists", "pixel_size": 1.35}
    if glued:
        cuts = np.cumsum([0] + list(glued))
        t = pd.concat([t.iloc[a:b].reset_index(drop=True) for a, b in zip(cuts[:-1], cuts[1:])])
    elif index is not None:
        t.index = index
    return t


def _split(ctx, df, index, sym, s_arg, label, glued=None, direct_recentre=True, layout=None, seed=0, dtypes=None, attrs=False):
    t = _table(df, index, glued, layout, seed, dtypes, attrs)
    if layout and layout != "canonical":
        ctx.extra["tables_in_layout_" + layout] = ctx.extra.get("tables_in_layout_" + layout, 0) + 1
    ok, m = ctx.call("Motl(df)", ctx.cm.Motl, t)
    if ok and attrs:
        m.provenance = {"made_by": "driver"}                       # an extra attribute carried along on the object
    if not ok:
        return None, None
    ok, res = ctx.call(label, m.split_in_asymmetric_subunits, sym, s_arg)
    if not ok:
        return None, None
    # the `recentre` monitor sits on Motl.update_coordinates; whether the expansion reaches it through that public method is
    # an internal matter of cryoCAT (the result itself is judged by `integral` and `position`), so the driver also applies
    # the step itself, to the parents' list (non-trivial: fractional shifts) - the monitor is reached in either case
    if direct_recentre:
        ok2, m2 = ctx.call("Motl(df)", ctx.cm.Motl, t.copy())
        if ok2:
            ctx.call("update_coordinates(parents)", m2.update_coordinates)
    return res.df, t


def _apply_edit(ctx, m, t, name, rng):
    """in-place edit of the list held by the Motl object m (t = the caller's own handle of the same DataFrame); the list stays
    inside the quantifier (finite, distinct ids).  cryoCAT's own editing methods are used as a user would; what they do is not
    judged here - the next expansion is judged against whatever the list then is."""
    N = len(m.df)
    cols = list(m.df.columns)
    ci = lambda *names: [cols.index(c) for c in names]
    some = np.flatnonzero(rng.random(N) < 0.5)
    if not len(some):
        some = np.array([int(rng.integers(0, N))])
    if name == "apply_rotation":
        from scipy.spatial.transform import Rotation
        q = rng.normal(size=4)
        m.apply_rotation(Rotation.from_quat(q / np.linalg.norm(q)))
    elif name == "flip_handedness":
        m.flip_handedness()
    elif name == "flip_handedness_dims":
        try:
            m.flip_handedness([int(a) for a in rng.integers(300, 900, 3)])
        except Exception as e:
            ctx.notes.append("flip_handedness(dims) raised %s: plain sign flip of theta used instead" % type(e).__name__)
            m.df["theta"] = -m.df["theta"]
    elif name == "assign_angle_columns":
        a = so3.random_euler(rng, N, "mixed")
        m.df["phi"] = a[:, 0]; m.df["theta"] = a[:, 1]; m.df["psi"] = a[:, 2]
    elif name == "loc_assign_angles":
        m.df.loc[:, ["phi", "theta", "psi"]] = so3.random_euler(rng, N, "wide")
    elif name == "caller_handle_angles":
        h = t if m.df is t else m.df
        h["psi"] = h["psi"] + float(rng.uniform(20, 160))
        h["theta"] = rng.uniform(0, 180, N)
    elif name == "iloc_some_rows_angles":
        m.df.iloc[some, ci("phi", "theta", "psi")] = so3.random_euler(rng, len(some), "random")
    elif name == "add_to_columns":
        d = rng.uniform(-40, 40, 3)
        m.df["x"] = m.df["x"] + d[0]; m.df["y"] = m.df["y"] + d[1]; m.df["z"] = m.df["z"] + d[2]
    elif name == "loc_assign_shifts":
        sh = rng.uniform(-4, 4, (N, 3))
        sh[rng.random(N) < 0.3] = 0.0
        m.df.loc[:, ["shift_x", "shift_y", "shift_z"]] = sh
    elif name == "scale_coordinates":
        m.scale_coordinates(float(rng.choice([2.0, 0.5, 1.5, 4.0])))
    elif name == "iloc_some_rows_pos":
        vals = np.round(rng.uniform(-300, 300, (len(some), 3)), int(rng.integers(0, 3)))
        if any(m.df[c].dtype.kind in "iu" for c in ("x", "y", "z")):
            vals = np.round(vals)       # integer-typed position columns take whole numbers only (pandas 3 refuses lossy assignment)
        m.df.iloc[some, ci("x", "y", "z")] = vals
    elif name == "renumber_ids":
        ids = m.df["subtomo_id"].to_numpy(dtype=float)
        m.df["subtomo_id"] = rng.permutation(ids) if N > 1 and rng.random() < 0.7 else ids[::-1] + 1000.0
    elif name == "reorder_rows":
        perm = rng.permutation(N) if N > 2 else np.arange(N)[::-1]
        m.df.iloc[:, :] = m.df.iloc[perm].to_numpy()
    elif name == "edit_fields":
        m.df["score"] = rng.uniform(0, 1, N).round(5)
        m.df["class"] = rng.integers(1, 9, N).astype(float)
        m.df["geom3"] = rng.integers(0, 1000, N).astype(float)
        m.df["object_id"] = m.df["object_id"] + 10.0
    elif name == "caller_handle_pos":
        h = t if m.df is t else m.df
        h["z"] = h["z"] - 17.25
        h["shift_x"] = 0.0
        h["y"] = np.round(h["y"])
    else:
        raise ValueError(name)
    ctx.extra["inplace_edits_" + name] = ctx.extra.get("inplace_edits_" + name, 0) + 1


def run_history(ctx, case):
    rng = ctx.rng(case["i"], 5)
    t = _table(case["df"], case["index"], case["glued"], case["layout"], case["i"], case["dtypes"], case["attrs"])
    ok, m = ctx.call("Motl(df)", ctx.cm.Motl, t)
    if not ok:
        return
    A = np.zeros(3)                                   # ONE caller-owned offset array, overwritten in place between the calls
    outs = []
    edited = False
    for st in case["history"]:
        if st["op"] == "edit":
            _apply_edit(ctx, m, t, st["name"], rng)
            edited = True
            continue
        A[:] = st["s"]
        parent = m.df.copy()
        n = st["n"]
        sym = spell(n, st["spelling"])
        ok, res = ctx.call("split(%s)" % st["spelling"], m.split_in_asymmetric_subunits, sym, A)
        outs.append(res.df if ok else None)
        if not ok:
            continue
        if edited:
            ctx.extra["splits_after_inplace_edit"] = ctx.extra.get("splits_after_inplace_edit", 0) + 1
        elif len(outs) > 1:
            ctx.extra["splits_repeated_on_same_object"] = ctx.extra.get("splits_repeated_on_same_object", 0) + 1
        sv = np.array(st["s"], dtype=float)
        _relational(ctx, parent, n, sv, res.df, bool(sv[0] == 0 and sv[1] == 0), repr(sym) + " (call %d on one object)" % len(outs))
        if "repeat_of" in st and outs[st["repeat_of"]] is not None:
            okk, w = orc.same_tables(outs[st["repeat_of"]], res.df)
            ctx.check("repeat_agree", okk, None if w is None else dict(w, first_call=st["repeat_of"] + 1, again_call=len(outs)))
    ok2, m2 = ctx.call("Motl(df)", ctx.cm.Motl, m.df.copy())
    if ok2:
        ctx.call("update_coordinates(parents)", m2.update_coordinates)


def run_chain(ctx, case):
    """the object another anchor function produced is handed to the expansion, judged like a fresh list with the same values"""
    import copy
    ch = case["chain"]
    n, s = case["n"], case["s"]
    t = _table(case["df"], case["index"], case["glued"], case["layout"], case["i"], case["dtypes"], case["attrs"])
    ok, m = ctx.call("Motl(df)", ctx.cm.Motl, t)
    if not ok:
        return
    kind = ch["kind"]
    if kind in ("after_update_coordinates", "after_shift_positions"):
        if kind == "after_update_coordinates":
            ok, _ = ctx.call("update_coordinates(parents)", m.update_coordinates)
        else:
            ok, _ = ctx.call("shift_positions", m.shift_positions, np.array(ch["s2"]))
        if not ok:
            return
        src = m
    else:
        ok, r1 = ctx.call("split(%s)" % case["spelling"], m.split_in_asymmetric_subunits, spell(n, case["spelling"]),
                          _container(s, case["s_kind"]))
        if not ok:
            return
        _relational(ctx, t, n, s, r1.df, case["on_axis"], "first generation")
        src = r1
        if kind == "result_df_permuted":
            src = ctx.cm.Motl(pd.DataFrame({c: r1.df[c].to_numpy() for c in _layout_columns(ch["layout2"], case["i"] + 1)}))
        elif kind == "result_modified_attrs":
            r1.df["score"] = np.round(r1.df["score"] * 0.5, 6)
            r1.df.attrs["expanded"] = True
            r1.note = "first generation"
        elif kind == "deepcopy_of_result":
            src = copy.deepcopy(r1)
        elif kind == "subset_of_result":
            keep = r1.df[r1.df["geom2"] <= max(1, n // 2)]
            src = ctx.cm.Motl(keep)                                 # keeps the gapped index of the selection
    ctx.extra["chained_inputs_" + kind] = ctx.extra.get("chained_inputs_" + kind, 0) + 1
    for n2, sp2 in ((ch["n2"], case["alt_spelling"]), (n, case["spelling"])):
        parent = src.df.copy()
        ok, r2 = ctx.call("split(%s)" % sp2, src.split_in_asymmetric_subunits, spell(n2, sp2), np.array(ch["s2"]))
        if ok:
            _relational(ctx, parent, n2, np.array(ch["s2"]), r2.df, False, "second generation (%s)" % kind)
    ok2, m2 = ctx.call("Motl(df)", ctx.cm.Motl, src.df.copy())
    if ok2:
        ctx.call("update_coordinates(parents)", m2.update_coordinates)


def run_case(ctx, case):
    if case["history"] is not None:
        return run_history(ctx, case)
    if case["chain"] is not None:
        return run_chain(ctx, case)
    n, s = case["n"], case["s"]
    sym = spell(n, case["spelling"])
    kw = dict(glued=case["glued"], layout=case["layout"], seed=case["i"], dtypes=case["dtypes"], attrs=case["attrs"])
    out, parent = _split(ctx, case["df"], case["index"], sym, _container(s, case["s_kind"]), "split(%s)" % case["spelling"], **kw)
    if out is None:
        return
    _relational(ctx, case["df"], n, s, out, case["on_axis"], repr(sym))
    if len(out) > 1100:                                            # the big block-boundary lists are expanded once
        return
    sym2 = spell(n, case["alt_spelling"])
    out2, _ = _split(ctx, case["df"], case["index"], sym2, np.array(s, dtype=float), "split(%s)" % case["alt_spelling"], **kw)
    if out2 is None:
        return
    _relational(ctx, case["df"], n, s, out2, case["on_axis"], repr(sym2))
    ok, w = orc.same_tables(out, out2)
    ctx.check("spelling_agree", ok, None if w is None else dict(w, a=repr(sym), b=repr(sym2)))


# ---- exhaustive sub-space: every n x six spellings x {generic, on-axis, zero} offset ------------------------------
def extra(ctx):
    nmax = 64       # every order the quantifier names, in both tiers: a fault at one single n (e.g. 61) must not depend on the seed
    covered, calls, nondiv = 0, 0, 0
    for n in range(1, nmax + 1):
        rng = ctx.rng(10 ** 6 + n, 7)
        N = int(rng.integers(2, 5))
        df = gens.motl_table(rng, N, tomos=2, ori="mixed", signed=bool(rng.integers(0, 2)))
        df.loc[0, ["shift_x", "shift_y", "shift_z"]] = 0.0                    # all shifts exactly 0, non-integer x,y,z
        df.loc[1, ["shift_x", "shift_y", "shift_z"]] = 0.0                    # all shifts exactly 0, integer x,y,z
        df.loc[1, ["x", "y", "z"]] = np.round(df.loc[1, ["x", "y", "z"]].to_numpy(dtype=float))
        df.loc[0, "y"] = np.nextafter(0.5, 0.0)                               # an ulp below / above the ties around 0
        df.loc[0, "x"] = -np.nextafter(0.5, 0.0)
        s = rng.uniform(-25, 25, 3)
        if abs(s[0]) + abs(s[1]) < 1.0:
            s[0] += 5.0
        ctx.cur = {"index": "extra", "cls": "exhaustive", "summary": {"n": n, "particles": N, "offset": [float(x) for x in s]}}
        before = ctx.mon["orientation"]["evals"]
        outs = []
        done = 0
        for sp in SPELLINGS:
            out, _ = _split(ctx, df, None, spell(n, sp), np.array(s), "split(%s)" % sp,
                            layout=LAYOUTS[(n + SPELLINGS.index(sp)) % len(LAYOUTS)], seed=n)
            calls += 1
            if out is not None:
                done += 1
                outs.append((sp, out))
                _relational(ctx, df, n, s, out, False, repr(spell(n, sp)))
        for sp, o in outs[1:]:
            ok, w = orc.same_tables(outs[0][1], o)
            ctx.check("spelling_agree", ok, None if w is None else dict(w, a=outs[0][0], b=sp, n=n))
        for s2 in (np.array([0.0, 0.0, float(s[2])]), np.zeros(3)):
            sp = SPELLINGS[(n + int(s2[2] != 0)) % len(SPELLINGS)]
            out, _ = _split(ctx, df, None, spell(n, sp), s2, "split(%s)" % sp, layout=LAYOUTS[(n + 3) % len(LAYOUTS)], seed=n)
            calls += 1
            if out is not None:
                done += 1
                _relational(ctx, df, n, s2, out, True, repr(spell(n, sp)))
        if done == len(SPELLINGS) + 2 and ctx.mon["orientation"]["evals"] - before == len(SPELLINGS) + 2:
            covered += 1
            nondiv += 1 if 360 % n else 0
    ctx.extra["n_range"] = "1..%d" % nmax
    ctx.extra["n_values_covered"] = covered
    ctx.extra["n_values_not_dividing_360_covered"] = nondiv
    ctx.extra["spellings_per_n"] = len(SPELLINGS)
    ctx.extra["offsets_per_n"] = "generic (all %d spellings), on-axis, zero" % len(SPELLINGS)
    ctx.extra["sweep_calls"] = calls
    # block-boundary row counts: N*n = 2**k - 1, 2**k, 2**k + 1, up to three (N, n) factorisations each
    tmax = 4097 if ctx.tier == "thorough" else 1025
    bcalls = 0
    for t in [t for t in BLOCK_TARGETS if t <= tmax]:
        pairs = BLOCK_PAIRS[t]
        for q in sorted({0, len(pairs) // 2, len(pairs) - 1}):
            N, n = pairs[q]
            rng = ctx.rng(3 * 10 ** 6 + 100 * t + q, 10)
            df = gens.motl_table(rng, N, tomos=2, ori="mixed", signed=bool(rng.integers(0, 2)))
            v = rng.uniform(-20, 20, 3)
            sp = SPELLINGS[(t + q) % len(SPELLINGS)]
            ctx.cur = {"index": "extra", "cls": "exhaustive", "summary": {"block_rows": t, "n": n, "particles": N,
                                                                           "offset": [float(x) for x in v]}}
            out, _ = _split(ctx, df, None, spell(n, sp), v, "split(%s)" % sp, direct_recentre=False,
                            layout=LAYOUTS[(t + q) % len(LAYOUTS)], seed=t)
            bcalls += 1
            if out is not None:
                _relational(ctx, df, n, v, out, False, repr(spell(n, sp)))
    ctx.extra["block_boundary_row_counts"] = [t for t in BLOCK_TARGETS if t <= tmax]
    ctx.extra["block_boundary_calls"] = bcalls
    # option-pair grid: spelling x offset container x offset kind x index layout, every combination `reps` times
    reps = 4 if ctx.tier == "thorough" else 2
    c = 0
    pair = {}
    for _ in range(reps):
        for sp in SPELLINGS:
            for cont in CONTAINERS:
                for okind in ("generic", "on_axis", "zero"):
                    for ikind in ("default", "glued", "odd"):
                        rng = ctx.rng(2 * 10 ** 6 + c, 9)
                        n = [2, 3, 4, 5, 6, 7, 8, 9, 11, 12, 13, 16, 10][c % 13]
                        c += 1
                        g = next((q for q in (2, 3, 5) if n % q == 0), 2)
                        N = 2 * g if ikind == "glued" else int(rng.integers(2, 5))
                        df = gens.motl_table(rng, N, tomos=2, ori="mixed", signed=bool(rng.integers(0, 2)))
                        v = rng.integers(-20, 21, 3).astype(float) if cont.startswith("int") else rng.uniform(-20, 20, 3)
                        if okind == "generic" and not v[:2].any():
                            v[0] = 3.0
                        if okind == "generic" and c % 4 == 0:
                            v[2] = 0.0                                    # in-plane
                        if okind == "on_axis":
                            v[:2] = 0.0
                        elif okind == "zero":
                            v[:] = 0.0
                        ctx.cur = {"index": "extra", "cls": "exhaustive", "summary": {"grid": [sp, cont, okind, ikind], "n": n,
                                                                                       "particles": N, "offset": [float(x) for x in v]}}
                        out, _ = _split(ctx, df, (rng.permutation(N) * 2 + 3) if ikind == "odd" else None, spell(n, sp),
                                        _container(v, cont), "split(%s)" % sp, glued=[g, g] if ikind == "glued" else None,
                                        direct_recentre=False, layout=LAYOUTS[c % len(LAYOUTS)], seed=c)
                        if out is not None:
                            _relational(ctx, df, n, v, out, okind in ("on_axis", "zero"), repr(spell(n, sp)))
                            opts = (sp, cont, okind, ikind)
                            for a in range(4):
                                for b in range(a + 1, 4):
                                    pair[(opts[a], opts[b])] = pair.get((opts[a], opts[b]), 0) + 1
    ctx.extra["option_grid_calls"] = c
    ctx.extra["option_pairs_distinct"] = len(pair)
    ctx.extra["option_pairs_min_count"] = min(pair.values()) if pair else 0
    # out-of-quantifier probes: must be counted out_of_domain, never judged
    rng = ctx.rng(10 ** 6, 8)
    df = gens.motl_table(rng, 3)
    ood0 = ctx.mon["rows_per_parent"]["out_of_domain"]
    for sym in ("D2", "d3", 65, 2.5):
        try:
            ctx.cm.Motl(df.copy()).split_in_asymmetric_subunits(sym, np.array([4.0, 1.0, 2.0]))
        except Exception:
            pass
    ctx.extra["out_of_domain_probes_counted"] = ctx.mon["rows_per_parent"]["out_of_domain"] - ood0
