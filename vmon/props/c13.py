"""C13 - Masks: analytic shapes and voxel-wise set algebra (cryocat/cryomask.py).

Call monitors (wrapped in place, so the solids built inside the shell functions / generate_mask / difference are judged too):
  sphere, cylinder, ellipsoid   post(spherical_mask / cylindrical_mask / ellipsoid_mask), sigma = 0: returned array has the
                                requested box, values exactly 0/1 and support == the analytic inequality of the statement in exact
                                integer arithmetic (sphere d2 <= r^2; cylinder planar d2 <= r^2 and |k-cz| <= floor(h/2); ellipsoid on
                                even boxes sum((i-c)/r)^2 <= 1 cross-multiplied), requested or default floor(N/2) centre.
  s_shell, e_shell              post(spherical_shell_mask / ellipsoid_shell_mask), sigma = 0: support == outer solid AND NOT inner solid
                                with radii r +- t/2 (inner radius >= 0, ellipsoid: integral radii >= 1, i.e. even thickness).
  generate_mask                 post(generate_mask): the named shape (own parser) on the returned cubic box, default centre.
  soft_range                    every shape function with 0 < sigma <= 3: all values in [-1e-9, 1+1e-9], box as requested.
  soft_core                     sphere/cylinder/ellipsoid with outward blur: every voxel of the requested hard shape >= 1 - 1e-3.
                                OPEN finding `ellipsoid-eccentric-core`: keyed only by classify_eccentric (ellipsoid_mask, range clause
                                held, max radius >= 3 min radius, every deficient voxel within ceil(5 sigma)+1 voxels of the requested
                                surface); any other deficit (near-isotropic, deep inside, sphere, cylinder) stays a violation.
  union, intersection, subtraction, difference
                                post: for lists of binary masks OR / AND / sequential AND-NOT / XOR (difference: pairs only).
  algebra_inputs                every judged algebra call: arrays (dtype, shape, bytes) and files (bytes) identical afterwards.
  algebra_range                 every judged algebra call (binary or soft in [0,1]): result finite and within [0,1].
Driver-side relational checks:
  shell_relational              shell == API solid(r+t/2) minus API solid(r-t/2) (covers odd thickness of ellipsoid shells).
  name_vs_direct                generate_mask(name) == the direct shape function on the same box.
  file_vs_array                 an algebra call on file paths == the same call on the arrays parsed independently from those files.
"""
import os

import numpy as np

from vmon import monitors
from vmon.oracles import c13_oracle as O
from vmon.oracles import files

PROP = "C13"
RULE = ("cases = one shape request (function, non-cubic box 6..48, centre class default/interior/face/edge/corner, radii/heights "
        "1..beyond the box, input formats) evaluated hard-edged and with two Gaussian widths in both edge modes, or one shape name, "
        "or one list of 1..5 masks (binary as float/int/uint8/bool, soft, arrays or MRC/EM files, real cryoCAT outputs) pushed through "
        "all four set operations; non-trivial = the analytic shape is neither empty nor the whole box, resp. the list holds >= 2 "
        "masks that overlap partially; distinct by digest of (function, box, centre, sizes, sigmas, formats / mask list description)")
ASSUMPTIONS = ["mask[i,j,k]: axis 0 = x, 1 = y, 2 = z; centre/radii given per axis in that order; default centre floor(N/2) (docstrings)",
               "default radius = min(N)//2 (sphere, shell), min(Nx,Ny)//2 and height Nz (cylinder), N//2 per axis (ellipsoid) as documented",
               "shell radii are r +- thickness/2 (docstrings); ellipsoid shells judged analytically only for even thickness and inner radii >= 1, "
               "spherical shells only for inner radius >= 0; odd thickness is judged relationally against the API solids",
               "the name-based generator is judged on the box it returns (cubic, default centre); the box size itself is not part of the statement",
               "subtraction of more than two binary masks = sequential AND-NOT (docstring: order of the list); difference judged as XOR for pairs only",
               "rotated masks (angles != 0) are outside C13 (C14); Gaussian widths above 3 and boxes outside 6..48 are not judged",
               "binary = every value exactly 0 or 1; soft list entries lie in [0,1]",
               "mask_size / center / radii given as a numpy integer scalar (np.int64(12)) or a 0-d array is an input FORM outside the quantifier "
               "(get_correct_format of the unchanged tree raises on it): never generated, counted out-of-domain by the monitors; Python int/float, "
               "np.float64, lists, tuples and 1-d arrays of any integer/float dtype, read-only or strided, are inside and judged",
               "boolean options and numbers are also passed as np.True_/np.bool_/1/0/0-d arrays resp. numpy scalars; a truthy flag requests the outward mode"]

CLASSES = ["sphere_interior", "sphere_boundary", "sphere_defaults", "cyl_interior", "cyl_z_crossing", "cyl_boundary_xy",
           "ell_even", "ell_ties", "ell_eccentric", "s_shell", "e_shell", "named",
           "alg_pair", "alg_dtypes", "alg_list", "alg_soft", "alg_files", "alg_real_outputs", "ell_near_miss", "history"]

KEY_ECC = "ellipsoid-eccentric-core"     # mechanism key of the OPEN finding in KNOWN_FINDINGS.txt; see classify_eccentric


def plan(tier):
    if tier == "quick":
        return dict(n_cases=2000, shards=2, classes=CLASSES, timeout_s=600,
                    min_evals={"sphere": 2000, "cylinder": 2000, "ellipsoid": 1500, "s_shell": 120, "e_shell": 90, "generate_mask": 60,
                               "soft_range": 1500, "soft_core": 700, "union": 1500, "intersection": 1500, "subtraction": 800,
                               "difference": 500, "algebra_inputs": 6000, "algebra_range": 6000, "shell_relational": 150,
                               "name_vs_direct": 80, "file_vs_array": 250}, min_known={"ellipsoid-eccentric-core": 10})
    return dict(n_cases=48000, shards=16, classes=CLASSES, timeout_s=3000,
                min_evals={"sphere": 25000, "cylinder": 22000, "ellipsoid": 20000, "s_shell": 3500, "e_shell": 2500, "generate_mask": 1700,
                           "soft_range": 38000, "soft_core": 17000, "union": 45000, "intersection": 45000, "subtraction": 22000,
                           "difference": 16000, "algebra_inputs": 170000, "algebra_range": 170000, "shell_relational": 4000,
                           "name_vs_direct": 2000, "file_vs_array": 8000}, min_known={"ellipsoid-eccentric-core": 200})


# =================================================================================================
# call monitors
# =================================================================================================
def _count(ctx, name, n=1):
    ctx.extra[name] = int(ctx.extra.get(name, 0)) + int(n)


def _args_w(A, keys):
    return {k: A.get(k) for k in keys if k in A}


def _soft(ctx, fn, A, dom, result, core_fn=None):
    """sigma > 0: range for every shape function, core for outward blur"""
    N = dom["N"]
    w = O.compare_range(result, N)
    ctx.check("soft_range", w is None, None if w is None else dict(w, function=fn, args=_args_w(A, A.keys())))
    if w is None and core_fn is not None and bool(A.get("gaussian_outwards", False)):
        core = core_fn()
        w = O.compare_core(result, core)
        ctx.check("soft_core", w is None, None if w is None else dict(w, function=fn, args=_args_w(A, A.keys())))


# ---- sphere ------------------------------------------------------------------------------------------------
def _sph_dom(A):
    N = O.triple(A["mask_size"])
    if not O.box_ok(N):
        return None
    c = O.centre_of(A["center"], N)
    r = O.rational(min(N) // 2 if A["radius"] is None else A["radius"])
    s = O.sigma_of(A["gaussian"])
    if c is None or r is None or r < 0 or s is None:
        return None
    return {"N": N, "c": c, "r": r, "sigma": s}


def _sph_app(A):
    A["_dom"] = _sph_dom(A)
    return A["_dom"] is not None


def _sph_post(ctx, A, old, result):
    d = A.pop("_dom")
    if d["sigma"] == 0:
        exp, d2, T = O.sphere(d["N"], d["c"], d["r"])
        _count(ctx, "sphere_voxels_exactly_on_surface", int((d2 == T).sum()) if d["r"].denominator == 1 else 0)
        w = O.compare_hard(result, d["N"], exp)
        if w is not None:
            w.update(function="spherical_mask", box=d["N"], centre=d["c"], radius=float(d["r"]))
            if "voxel" in w and w.get("what") == "membership":
                w["d2"], w["r2_floor"] = int(d2[w["voxel"]]), int(T)
        ctx.check("sphere", w is None, w)
    else:
        _soft(ctx, "spherical_mask", A, d, result, core_fn=lambda: O.sphere(d["N"], d["c"], d["r"])[0])


# ---- cylinder ----------------------------------------------------------------------------------------------
def _cyl_dom(A):
    N = O.triple(A["mask_size"])
    if not O.box_ok(N) or not O.no_rotation(A["angles"]):
        return None
    c = O.centre_of(A["center"], N)
    r = O.rational(min(N[:2]) // 2 if A["radius"] is None else A["radius"])
    h = O.rational(N[2] if A["height"] is None else A["height"])
    s = O.sigma_of(A["gaussian"])
    if c is None or r is None or r < 1 or h is None or h < 1 or s is None:
        return None
    return {"N": N, "c": c, "r": r, "hh": O.floor_half(h), "sigma": s}


def _cyl_app(A):
    A["_dom"] = _cyl_dom(A)
    return A["_dom"] is not None


def _cyl_post(ctx, A, old, result):
    d = A.pop("_dom")
    grow = 0 if (d["sigma"] == 0 or not A["gaussian_outwards"]) else int(np.ceil(5 * d["sigma"]))
    if d["c"][2] - d["hh"] - grow < 0 or d["c"][2] + d["hh"] + grow >= d["N"][2]:
        _count(ctx, "cylinder_calls_crossing_a_z_face")
    if d["sigma"] == 0:
        exp, d2, T = O.cylinder(d["N"], d["c"], d["r"], d["hh"])
        w = O.compare_hard(result, d["N"], exp)
        if w is not None:
            w.update(function="cylindrical_mask", box=d["N"], centre=d["c"], radius=float(d["r"]), half_height=d["hh"])
            if "voxel" in w and w.get("what") == "membership":
                w["planar_d2"], w["r2_floor"], w["dz"] = int(d2[w["voxel"]]), int(T), int(w["voxel"][2] - d["c"][2])
        ctx.check("cylinder", w is None, w)
    else:
        _soft(ctx, "cylindrical_mask", A, d, result, core_fn=lambda: O.cylinder(d["N"], d["c"], d["r"], d["hh"])[0])


# ---- ellipsoid ---------------------------------------------------------------------------------------------
def _ell_dom(A):
    N = O.triple(A["mask_size"])
    if not O.box_ok(N, even=True) or not O.no_rotation(A["angles"]):
        return None
    c = O.centre_of(A["center"], N)
    radii = tuple(n // 2 for n in N) if A["radii"] is None else O.triple(A["radii"])
    s = O.sigma_of(A["gaussian"])
    if c is None or radii is None or min(radii) < 1 or s is None:
        return None
    return {"N": N, "c": c, "radii": radii, "sigma": s}


def _ell_app(A):
    A["_dom"] = _ell_dom(A)
    return A["_dom"] is not None


def _ell_post(ctx, A, old, result):
    d = A.pop("_dom")
    if d["sigma"] == 0:
        exp, lhs, rhs = O.ellipsoid(d["N"], d["c"], d["radii"])
        _count(ctx, "ellipsoid_voxels_exactly_on_surface", int((lhs == rhs).sum()))
        _count(ctx, "ellipsoid_voxels_within_2.5e-7_of_the_surface_but_not_on_it", O.count_near(lhs, rhs))
        w = O.compare_hard(result, d["N"], exp)
        if w is not None:
            w.update(function="ellipsoid_mask", box=d["N"], centre=d["c"], radii=d["radii"])
            if "voxel" in w and w.get("what") == "membership":
                w["lhs_over_rhs"] = float(lhs[w["voxel"]]) / float(rhs)
                w["exactly_on_surface"] = bool(lhs[w["voxel"]] == rhs)
                w["lhs_minus_rhs"], w["rhs"] = int(lhs[w["voxel"]] - rhs), int(rhs)
        ctx.check("ellipsoid", w is None, w)
    else:
        fn = "ellipsoid_mask"
        w = O.compare_range(result, d["N"])
        ctx.check("soft_range", w is None, None if w is None else dict(w, function=fn, args=_args_w(A, A.keys())))
        if w is not None or not bool(A["gaussian_outwards"]):
            return
        core = O.ellipsoid(d["N"], d["c"], d["radii"])[0]
        w = O.compare_core(result, core)
        key = None
        if w is not None:
            w.update(function=fn, args=_args_w(A, A.keys()))
            key, why = classify_eccentric(d, np.asarray(result, dtype=float), core)
            w["classifier"] = why
        ctx.check("soft_core", w is None, w, key=key)


def classify_eccentric(d, res, core):
    """Mechanism classifier of the open finding `ellipsoid-eccentric-core` (the range clause held, only the core clause fails):
    the radii are strongly unequal (max >= 3 min) AND every deficient core voxel lies within ceil(5 sigma)+1 voxels of the
    requested surface (edge erosion by the blur, not a wrong shape).  Anything else stays an unkeyed violation."""
    radii = d["radii"]
    if max(radii) < 3 * min(radii):
        return None, "radii not strongly unequal (max < 3 min)"
    D = int(np.ceil(5 * d["sigma"])) + 1
    depth = O.ellipsoid_depth(d["N"], d["c"], radii, D + 2)
    bad = core & (res < 1 - O.CORE_TOL)
    deepest = float(depth[bad].max())
    if deepest > D:
        return None, "a deficient core voxel lies %.2f voxels below the requested surface (> %d)" % (deepest, D)
    return KEY_ECC, "edge erosion: %d deficient voxels, deepest %.2f voxels below the surface (<= %d), radii %s" % (int(bad.sum()), deepest, D, list(radii))


# ---- shells ------------------------------------------------------------------------------------------------
def _ssh_dom(A):
    N = O.triple(A["mask_size"])
    if not O.box_ok(N):
        return None
    c = O.centre_of(A["center"], N)
    r = O.rational(min(N) // 2 if A["radius"] is None else A["radius"])
    t = O.rational(A["shell_thickness"])
    s = O.sigma_of(A["gaussian"])
    if c is None or r is None or t is None or t <= 0 or r - t / 2 < 0 or s is None:
        return None
    return {"N": N, "c": c, "ro": r + t / 2, "ri": r - t / 2, "sigma": s}


def _ssh_app(A):
    A["_dom"] = _ssh_dom(A)
    return A["_dom"] is not None


def _ssh_post(ctx, A, old, result):
    d = A.pop("_dom")
    if d["sigma"] == 0:
        exp = O.sphere(d["N"], d["c"], d["ro"])[0] & ~O.sphere(d["N"], d["c"], d["ri"])[0]
        w = O.compare_hard(result, d["N"], exp)
        if w is not None:
            w.update(function="spherical_shell_mask", box=d["N"], centre=d["c"], outer=float(d["ro"]), inner=float(d["ri"]))
        ctx.check("s_shell", w is None, w)
    else:
        _soft(ctx, "spherical_shell_mask", A, d, result)


def _esh_dom(A):
    N = O.triple(A["mask_size"])
    if not O.box_ok(N, even=True) or not O.no_rotation(A["angles"]):
        return None
    c = O.centre_of(A["center"], N)
    radii = tuple(n // 2 for n in N) if A["radii"] is None else O.triple(A["radii"])
    t = O.rational(A["shell_thickness"])
    s = O.sigma_of(A["gaussian"])
    if c is None or radii is None or t is None or t <= 0 or s is None or (t / 2).denominator != 1:
        return None
    half = int(t / 2)
    if min(radii) - half < 1:
        return None
    return {"N": N, "c": c, "ro": tuple(v + half for v in radii), "ri": tuple(v - half for v in radii), "sigma": s}


def _esh_app(A):
    A["_dom"] = _esh_dom(A)
    return A["_dom"] is not None


def _esh_post(ctx, A, old, result):
    d = A.pop("_dom")
    if d["sigma"] == 0:
        exp = O.ellipsoid(d["N"], d["c"], d["ro"])[0] & ~O.ellipsoid(d["N"], d["c"], d["ri"])[0]
        w = O.compare_hard(result, d["N"], exp)
        if w is not None:
            w.update(function="ellipsoid_shell_mask", box=d["N"], centre=d["c"], outer=d["ro"], inner=d["ri"])
        ctx.check("e_shell", w is None, w)
    else:
        _soft(ctx, "ellipsoid_shell_mask", A, d, result)


# ---- generate_mask -----------------------------------------------------------------------------------------
def named_expected(kind, v, N):
    """-> expected bool array, or None when the named shape on box N is outside the quantifier"""
    c = tuple(n // 2 for n in N)
    F = O.Fraction
    if kind == "sphere":
        return O.sphere(N, c, F(v["r"]))[0]
    if kind == "cylinder":
        return O.cylinder(N, c, F(v["r"]), v["h"] // 2)[0]
    if kind == "s_shell":
        ro, ri = F(v["r"]) + F(v["s"], 2), F(v["r"]) - F(v["s"], 2)
        if ri < 0:
            return None
        return O.sphere(N, c, ro)[0] & ~O.sphere(N, c, ri)[0]
    if any(n % 2 for n in N):
        return None
    radii = (v["rx"], v["ry"], v["rz"])
    if kind == "ellipsoid":
        return O.ellipsoid(N, c, radii)[0]
    if v["s"] % 2 or min(radii) - v["s"] // 2 < 1:
        return None
    h = v["s"] // 2
    return O.ellipsoid(N, c, tuple(r + h for r in radii))[0] & ~O.ellipsoid(N, c, tuple(r - h for r in radii))[0]


def _gm_app(A):
    p = O.parse_name(A["mask_shape"])
    if p is None or min(p[1].values()) < 1:
        return False
    A["_dom"] = p
    return True


def _gm_post(ctx, A, old, result):
    kind, v = A.pop("_dom")
    a = np.asarray(result)
    if a.ndim != 3 or len(set(a.shape)) != 1 or not O.box_ok(a.shape):
        ctx.ood("generate_mask")
        return
    exp = named_expected(kind, v, tuple(a.shape))
    if exp is None:
        ctx.ood("generate_mask")
        return
    w = O.compare_hard(a, a.shape, exp)
    if w is not None:
        w.update(function="generate_mask", name=A["mask_shape"], mask_size=A["mask_size"], box=list(a.shape))
    ctx.check("generate_mask", w is None, w)


# ---- set algebra -------------------------------------------------------------------------------------------
def read_entry(m):
    """independent reading of one list entry -> dict(kind, values[x,y,z], ident) or None"""
    if isinstance(m, np.ndarray):
        if m.ndim != 3 or m.dtype.kind not in "biuf":
            return None
        return {"kind": "array", "values": np.array(m, copy=True), "ident": (str(m.dtype), m.shape, m.tobytes())}
    if isinstance(m, str) and os.path.isfile(m):
        raw = open(m, "rb").read()
        p = files.parse_mrc(m) if m.endswith(".mrc") else files.parse_em(m) if m.endswith(".em") else {"error": "ext"}
        if "error" in p:
            return None
        return {"kind": "file", "values": np.array(p["data"]), "ident": raw}
    return None


def _alg_app(A):
    ml = A["mask_list"]
    if not isinstance(ml, (list, tuple)) or not (1 <= len(ml) <= 5):
        return False
    ents = [read_entry(m) for m in ml]
    if any(e is None for e in ents):
        return False
    shp = ents[0]["values"].shape
    if not O.box_ok(shp):
        return False
    for e in ents:
        v = e["values"]
        if v.shape != shp or not np.all(np.isfinite(v.astype(float))) or v.min() < 0 or v.max() > 1:
            return False
    A["_ents"] = ents
    return True


def _alg_snap(A):
    return A.pop("_ents")


def _alg_post_for(op):
    def post(ctx, A, ents, result):
        ml = A["mask_list"]
        shp = ents[0]["values"].shape
        # inputs unmodified
        w = None
        for k, (m, e) in enumerate(zip(ml, ents)):
            if e["kind"] == "array":
                same = (str(m.dtype), m.shape, m.tobytes()) == e["ident"]
            else:
                same = os.path.isfile(m) and open(m, "rb").read() == e["ident"]
            if not same:
                w = {"what": "input %d of %s was modified" % (k, op), "kind": e["kind"], "dtype": str(e["values"].dtype)}
                if e["kind"] == "array" and m.shape == e["values"].shape:
                    bad = np.argwhere(m != e["values"])
                    if len(bad):
                        idx = tuple(int(x) for x in bad[0])
                        w.update(voxel=idx, before=float(e["values"][idx]), after=float(m[idx]), n_changed=int(len(bad)))
                break
        ctx.check("algebra_inputs", w is None, w)
        # range
        r = np.asarray(result)
        w = O.compare_range(r, shp) if r.dtype.kind in "biuf" else {"what": "result dtype", "dtype": str(r.dtype)}
        if w is not None and w.get("what") == "range":
            w["what"] = "result outside [0,1]"
        ctx.check("algebra_range", w is None, None if w is None else dict(w, op=op, n_masks=len(ml), dtypes=[str(e["values"].dtype) for e in ents]))
        # set semantics for binary lists
        if not all(O.is_binary(e["values"]) for e in ents):
            ctx.ood(op)
            return
        bools = [e["values"] != 0 for e in ents]
        if op == "difference":
            if len(bools) != 2:
                ctx.ood(op)
                return
            exp = bools[0] ^ bools[1]
        else:
            exp = O.fold(op, bools)
        w = O.compare_hard(r, shp, exp) if w is None else {"what": "not comparable (range/shape failure)"}
        if w is not None:
            w.update(op=op, n_masks=len(ml), dtypes=[str(e["values"].dtype) for e in ents], kinds=[e["kind"] for e in ents])
            if "voxel" in w and w.get("what") == "membership":
                w["inputs_at_voxel"] = [bool(b[w["voxel"]]) for b in bools]
        ctx.check(op, w is None, w)
    return post


# =================================================================================================
def setup(ctx):
    from cryocat import cryomask
    ctx.cmk = cryomask
    f_sph = monitors.wrap(ctx, cryomask, "spherical_mask", "sphere", _sph_post, _sph_app)
    f_cyl = monitors.wrap(ctx, cryomask, "cylindrical_mask", "cylinder", _cyl_post, _cyl_app)
    f_ell = monitors.wrap(ctx, cryomask, "ellipsoid_mask", "ellipsoid", _ell_post, _ell_app)
    f_ssh = monitors.wrap(ctx, cryomask, "spherical_shell_mask", "s_shell", _ssh_post, _ssh_app)
    f_esh = monitors.wrap(ctx, cryomask, "ellipsoid_shell_mask", "e_shell", _esh_post, _esh_app)
    f_gm = monitors.wrap(ctx, cryomask, "generate_mask", "generate_mask", _gm_post, _gm_app)
    f_alg = {}
    for op in ("union", "intersection", "subtraction", "difference"):
        f_alg[op] = monitors.wrap(ctx, cryomask, op, op, _alg_post_for(op), _alg_app, _alg_snap)
    ctx.declare("soft_range", "soft_core", "algebra_inputs", "algebra_range", "shell_relational", "name_vs_direct", "file_vs_array")
    monitors.trace(ctx, [
        ("spherical_mask", f_sph, {"default_radius": "radius = np.amin(mask_size) // 2"}),
        ("cylindrical_mask", f_cyl, {"default_radius": "radius = np.amin(mask_size[:2]) // 2", "default_height": "height = mask_size[2]"}),
        ("ellipsoid_mask", f_ell),
        ("spherical_shell_mask", f_ssh, {"default_radius": "radius = np.amin(mask_size) // 2"}),
        ("ellipsoid_shell_mask", f_esh),
        ("preprocess_params", cryomask.preprocess_params, {"grown_outwards": "new_radius = np.ceil(", "unchanged": "new_radius = radius"}),
        ("add_gaussian", cryomask.add_gaussian, {"identity": "return input_mask", "blur": "return filters.gaussian("}),
        ("postprocess", cryomask.postprocess),
        ("rotate", cryomask.rotate, {"no_rotation": "return input_mask", "rotated": "return cryomap.rotate("}),
        ("get_correct_format", cryomask.get_correct_format, {"given": "size_correct_format = format_input(input_value)",
                                                              "default_half_box": "size_correct_format = box_size // 2"}),
        ("parse_shape_string", cryomask.parse_shape_string, {"matched": "return shape_type, numbers"}),
        ("generate_mask", f_gm, {"default_size": "mask_size = 2 * np.max(specs) + mask_expansion", "sphere": "mask = spherical_mask(",
                                 "cylinder": "mask = cylindrical_mask(", "s_shell": "mask = spherical_shell_mask(",
                                 "ellipsoid": "mask = ellipsoid_mask(", "e_shell": "mask = ellipsoid_shell_mask("}),
        ("union", f_alg["union"]), ("intersection", f_alg["intersection"]), ("subtraction", f_alg["subtraction"]),
        ("difference", f_alg["difference"])])


# =================================================================================================
# generators
# =================================================================================================
SIGMAS = [0.3, 0.5, 0.7, 1.0, 1.0, 1.5, 2.0, 2.5, 3.0]


def _axis(rng, even=False, small=False):
    u = rng.random()
    if u < 0.15:
        n = int(rng.choice([6, 7, 8, 47, 48]))
    elif u < 0.7 or small:
        n = int(rng.integers(6, 25))
    else:
        n = int(rng.integers(6, 49))
    if even:
        n += n % 2
    return n


def _box(rng, even=False, cubic=False, small=False):
    if cubic:
        n = _axis(rng, even, small)
        return (n, n, n)
    while True:
        N = tuple(_axis(rng, even, small) for _ in range(3))
        if len(set(N)) > 1 and N[0] != N[1]:
            return N


def _centre(rng, N, kind):
    if kind == "default":
        return None
    if kind == "interior":
        return tuple(int(rng.integers(n // 4, max(n // 4 + 1, (3 * n) // 4))) for n in N)
    c = [int(rng.integers(0, n)) for n in N]
    if kind == "anywhere":
        return tuple(c)
    axes = {"face": 1, "edge": 2, "corner": 3}[kind]
    for a in rng.permutation(3)[:axes]:
        c[int(a)] = int(rng.choice([0, N[int(a)] - 1]))
    return tuple(c)


def _radius(rng, N, kind):
    lo, hi = min(N), max(N)
    if kind == "small":
        return int(rng.integers(1, 4))
    if kind == "medium":
        return int(rng.integers(1, max(2, lo // 2 + 1)))
    if kind == "large":
        return int(rng.integers(max(1, lo // 2), hi + 1))
    return int(rng.integers(hi, hi + 21))          # beyond the box


def _odd_float(rng, r):
    """an integral radius as float, with a fraction, or one ulp next to an integer / half-integer (representability boundaries)"""
    r = float(int(r))
    return float(rng.choice([r, r + 0.5, r + 0.25, np.nextafter(r, np.inf), np.nextafter(r, 0.0), np.nextafter(r + 0.5, 0.0),
                             np.nextafter(r + 0.5, np.inf)]))


def _sigma(rng):
    s = float(rng.choice(SIGMAS)) if rng.random() < 0.7 else round(float(rng.uniform(0.2, 3.0)), 2)
    if s in (1.0, 2.0, 3.0) and rng.random() < 0.3:
        return int(s)
    return s


FLAG_KINDS = ["py", "np", "np_ctor", "int", "comparison", "0d", "element"]
NUM_KINDS = ["py", "py", "np64", "np32", "0d"]
ARRAY_KINDS = ["array", "array32", "array_i16", "array_i8", "array_u8", "array_f32", "array_f64", "array_ro", "array_neg", "array_strided"]


def make_flag(value, kind):
    """the same boolean option as a Python bool, a numpy boolean (literal, constructor, result of a comparison, element of a
    boolean array), the integers 1/0 or a 0-d array"""
    value = bool(value)
    if kind == "np":
        return np.True_ if value else np.False_
    if kind == "np_ctor":
        return np.bool_(value)
    if kind == "int":
        return 1 if value else 0
    if kind == "comparison":
        return np.array([3.0])[0] > (0 if value else 5)
    if kind == "0d":
        return np.array(value)
    if kind == "element":
        return np.array([value, not value])[0]
    return value


def make_num(v, kind):
    """the same number as a Python scalar, numpy 64/32-bit scalar or 0-d array"""
    if v is None or kind == "py":
        return v
    isint = isinstance(v, (int, np.integer))
    if kind == "np64":
        return np.int64(v) if isint else np.float64(v)
    if kind == "np32":
        return np.int32(v) if isint else np.float32(v)
    return np.array(v)


def make_sigma(s, kind):
    if s == 0:
        return {"py": 0, "np64": np.float64(0), "np32": np.int64(0), "0d": np.array(0.0), "negzero": -0.0, "pyfloat": 0.0}[kind]
    return make_num(s, kind if kind in ("py", "np64", "np32", "0d") else "py")


def as_array(vals, how):
    vals = [int(v) for v in vals]
    if how == "array32":
        return np.array(vals, dtype=np.int32)
    if how == "array_i16":
        return np.array(vals, dtype=np.int16)
    if how == "array_i8":
        return np.array(vals, dtype=np.int8)
    if how == "array_u8":
        return np.array(vals, dtype=np.uint8)
    if how == "array_f32":
        return np.array(vals, dtype=np.float32)
    if how == "array_f64":
        return np.array(vals, dtype=np.float64)
    if how == "array_ro":
        a = np.array(vals, dtype=np.int64)
        a.setflags(write=False)
        return a
    if how == "array_neg":
        return np.array(vals[::-1], dtype=np.int64)[::-1]
    if how == "array_strided":
        big = np.full(6, -7, dtype=np.int64)
        big[::2] = vals
        return big[::2]
    return np.array(vals, dtype=np.int64)


def _soft_calls(rng, shell=False):
    def gk(hard):
        return str(rng.choice(["py", "np64", "np32", "0d", "negzero", "pyfloat"] if hard else ["py", "py", "np64", "np32", "0d"]))
    if shell:
        return [{"sigma": 0, "gk": gk(True)}, {"sigma": _sigma(rng), "gk": gk(False)}]
    fk = [str(rng.choice(FLAG_KINDS)) for _ in range(3)]
    return [{"sigma": 0, "outwards": bool(rng.integers(0, 2)), "flag": fk[0], "gk": gk(True)},
            {"sigma": _sigma(rng), "outwards": True, "flag": fk[1], "gk": gk(False)},
            {"sigma": _sigma(rng), "outwards": False, "flag": fk[2], "gk": gk(False)}]


def _size_fmt(rng, N):
    if N[0] == N[1] == N[2] and rng.random() < 0.6:
        return str(rng.choice(["int", "list1", "list", "tuple", "array", "float", "npfloat"]))
    return str(rng.choice(["list", "tuple", "floatlist"] + ARRAY_KINDS))


def fmt_size(N, how):
    if how == "int":
        return int(N[0])
    if how == "float":
        return float(N[0])
    if how == "list1":
        return [int(N[0])]
    if how == "list":
        return [int(v) for v in N]
    if how == "tuple":
        return tuple(int(v) for v in N)
    if how == "npfloat":
        return np.float64(N[0])
    if how == "floatlist":
        return [float(v) for v in N]
    return as_array(N, how)


def fmt_centre(c, how):
    if c is None:
        return None
    if how == "list":
        return [int(v) for v in c]
    if how == "tuple":
        return tuple(int(v) for v in c)
    return as_array(c, how)


TIE_RADII = [(5, 5, 5), (5, 10, 13), (10, 10, 5), (13, 13, 13), (15, 20, 25), (25, 25, 7), (17, 17, 17), (10, 26, 10), (3, 4, 5),
             (6, 8, 10), (20, 15, 12), (9, 12, 15), (25, 5, 13), (2, 2, 2), (1, 1, 1), (29, 29, 29), (35, 37, 12)]


def gen_shape(rng, cls, tier):
    case = {"family": "shape"}
    if cls.startswith("sphere"):
        case["fn"] = "sphere"
        if cls == "sphere_defaults":
            N = _box(rng, cubic=rng.random() < 0.6)
            ck = str(rng.choice(["default", "default", "anywhere"]))
            case["r"] = None if rng.random() < 0.6 else _radius(rng, N, "medium")
        elif cls == "sphere_interior":
            N = _box(rng)
            ck = str(rng.choice(["interior", "interior", "default"]))
            case["r"] = _radius(rng, N, str(rng.choice(["small", "medium", "medium", "large"])))
        else:
            N = _box(rng)
            ck = str(rng.choice(["corner", "face", "edge", "anywhere"]))
            case["r"] = _radius(rng, N, str(rng.choice(["medium", "large", "beyond"])))
        if case["r"] is not None and rng.random() < 0.15:
            case["r"] = _odd_float(rng, case["r"])
        case["calls"] = _soft_calls(rng)
    elif cls.startswith("cyl"):
        case["fn"] = "cylinder"
        N = _box(rng)
        if cls == "cyl_interior":
            ck = str(rng.choice(["interior", "default"]))
            case["r"] = _radius(rng, N[:2], str(rng.choice(["small", "medium"])))
            cz_room = N[2] // 4
            case["h"] = int(rng.integers(1, max(2, 2 * cz_room)))
        elif cls == "cyl_z_crossing":
            ck = "anywhere"
            case["r"] = _radius(rng, N[:2], str(rng.choice(["small", "medium", "large"])))
            case["h"] = int(rng.choice([int(rng.integers(1, N[2] + 1)), int(rng.integers(N[2], 2 * N[2] + 10)), 1, 2, 3]))
        else:
            ck = str(rng.choice(["corner", "face", "edge"]))
            case["r"] = _radius(rng, N[:2], str(rng.choice(["medium", "large", "beyond"])))
            case["h"] = int(rng.integers(1, 2 * N[2]))
        if rng.random() < 0.1:
            case["r"] = _odd_float(rng, case["r"])
        if rng.random() < 0.06 and case["h"] >= 2:
            case["h"] = float(rng.choice([float(case["h"]), float(np.nextafter(case["h"], 0)), float(np.nextafter(case["h"], np.inf))]))
        u = rng.random()
        if u < 0.12:
            case["r"] = None                       # documented default: half of the smaller of the x and y sizes
        elif u < 0.24:
            case["h"] = None                       # documented default: the z size
        case["calls"] = _soft_calls(rng)
    elif cls.startswith("ell"):
        case["fn"] = "ellipsoid"
        N = _box(rng, even=True)
        if cls == "ell_ties" and rng.random() < 0.15:
            # 7^2 + 14^2 + 22^2 = 27^2: surface voxels whose three quotients do not add up to exactly 1.0 in floating point
            sc = [int(rng.integers(1, 3)) for _ in range(3)] if rng.random() < 0.4 else [1, 1, 1]
            N = (2 * int(rng.integers(7, 25)), int(rng.choice([44, 46, 48])), int(rng.choice([44, 46, 48])))
            if N[0] == N[1]:
                N = (N[0] - 2, N[1], N[2])
            case["radii"] = tuple(27 * k for k in sc)
            lo = [max(0, 7 * sc[0] - 2), 0, 0]
            case["centre"] = None if rng.random() < 0.4 else tuple(
                int(np.clip(N[a] // 2 + int(rng.integers(-1, 2)) * (sc[a] == 1), lo[a], N[a] - 1)) if a else int(rng.integers(0, N[0])) for a in range(3))
            if sc[1] == 2 or sc[2] == 2:                      # offsets 28 / 44 only fit from a face
                case["centre"] = (int(rng.integers(0, N[0])), 0 if sc[1] == 2 else N[1] // 2, 0 if sc[2] == 2 else N[2] // 2)
            ck = "r27_family"
        elif cls == "ell_ties":
            ck = str(rng.choice(["default", "interior", "anywhere"]))
            t = TIE_RADII[int(rng.integers(0, len(TIE_RADII)))]
            case["radii"] = tuple(int(v) for v in rng.permutation(t))
        elif cls == "ell_near_miss":
            # a lattice point that misses the surface by < 2.5e-7 (relative), found in exact integer arithmetic
            radii, off, sign, rel = O.near_miss(O.NEAR_MISS[int(rng.integers(0, len(O.NEAR_MISS)))])
            p = [int(v) for v in rng.permutation(3)]
            radii, off = tuple(radii[k] for k in p), tuple(off[k] for k in p)
            N, c = [], []
            for a in range(3):
                need = off[a] + 1
                n = min(48, max(6, need + need % 2) + 2 * int(rng.integers(0, 5)))
                N.append(n)
                c.append(int(rng.integers(0, n - off[a])) if rng.random() < 0.5 else int(rng.integers(off[a], n)))
            N = tuple(N)
            case["radii"], case["centre"], ck = radii, tuple(c), "near_miss"
            case["near"] = {"offset": off, "side": "outside" if sign > 0 else "inside", "relative_distance": rel}
        elif cls == "ell_eccentric":
            if rng.random() < 0.6:
                # a long thin ellipsoid whose tip lies inside the box (where the outward blur erodes the requested core)
                ax = int(rng.integers(0, 3))
                N = list(N)
                N[ax] = int(rng.choice([40, 44, 48]))
                N = tuple(N)
                a = int(rng.integers(15, N[ax]))
                rr = [int(rng.integers(1, 3)), int(rng.integers(1, 4))]
                rr.insert(ax, a)
                case["radii"] = tuple(rr)
                c = [int(rng.integers(n // 3, (2 * n) // 3 + 1)) for n in N]
                c[ax] = int(rng.integers(0, N[ax] - a)) if rng.random() < 0.5 else int(rng.integers(a, N[ax]))
                case["centre"], ck = tuple(c), "tip_inside"
                case["sigma_out"] = float(rng.choice([0.4, 0.6, 0.8, 1.0, 1.2]))
            else:
                ck = str(rng.choice(["default", "anywhere", "face", "corner"]))
                rr = [int(rng.integers(1, 4)), int(rng.integers(1, 6)), int(rng.integers(10, 61))]
                case["radii"] = tuple(int(v) for v in rng.permutation(rr))
        else:
            ck = str(rng.choice(["default", "interior", "anywhere", "face", "corner"]))
            case["radii"] = tuple(_radius(rng, (n,), str(rng.choice(["small", "medium", "large", "beyond"]))) for n in N)
            if rng.random() < 0.1:
                case["radii"] = None
            elif rng.random() < 0.1:
                case["radii"] = int(case["radii"][0])
        case["calls"] = _soft_calls(rng)
    elif cls == "s_shell":
        case["fn"] = "s_shell"
        N = _box(rng, cubic=rng.random() < 0.2)
        ck = str(rng.choice(["default", "interior", "anywhere", "face", "corner"]))
        while True:
            r = _radius(rng, N, str(rng.choice(["small", "medium", "large", "beyond"])))
            t = int(rng.integers(1, 9))
            if rng.random() < 0.15:
                t = 2 * r                      # inner radius exactly 0
            if r - t / 2 >= 0:
                break
        case["r"], case["t"] = (None if (rng.random() < 0.25 and min(N) // 2 - t / 2 >= 0) else r), t
        case["calls"] = _soft_calls(rng, shell=True)
    else:
        case["fn"] = "e_shell"
        N = _box(rng, even=True)
        ck = str(rng.choice(["default", "interior", "anywhere", "face"]))
        while True:
            radii = tuple(_radius(rng, (n,), str(rng.choice(["small", "medium", "large", "beyond"]))) for n in N)
            t = int(rng.choice([2, 2, 4, 4, 6, 8, 1, 3, 5]))
            if min(radii) - t / 2 >= 1:
                break
        if rng.random() < 0.08:                              # outer or inner solid of radius 27 (see ell_ties)
            N, ck = (2 * int(rng.integers(10, 24)), int(rng.choice([46, 48])), int(rng.choice([44, 48]))), "default"
            t = int(rng.choice([2, 4, 6]))
            radii = (27 - t // 2,) * 3 if rng.random() < 0.5 else (27 + t // 2,) * 3
        case["radii"], case["t"] = radii, t
        case["calls"] = _soft_calls(rng, shell=True)
    if "centre" not in case:
        case["centre"] = _centre(rng, N, ck)
    case["N"], case["centre_kind"] = N, ck
    if "sigma_out" in case:
        case["calls"][1]["sigma"] = case.pop("sigma_out")
    case["size_fmt"] = _size_fmt(rng, N)
    case["centre_fmt"] = str(rng.choice(["list", "tuple"] + ARRAY_KINDS))
    case["radii_fmt"] = str(rng.choice(["list", "tuple"] + ARRAY_KINDS))
    case["num_kind"] = str(rng.choice(NUM_KINDS))
    # non-triviality from the analytic shape
    c = case["centre"] or tuple(n // 2 for n in N)
    F = O.Fraction
    fn = case["fn"]
    if fn == "sphere":
        r = F(min(N) // 2) if case["r"] is None else F(case["r"])
        exp = O.sphere(N, c, r)[0]
    elif fn == "cylinder":
        r = F(min(N[:2]) // 2) if case["r"] is None else F(case["r"])
        h = N[2] if case["h"] is None else case["h"]
        exp = O.cylinder(N, c, r, int(h // 2))[0]
    elif fn == "ellipsoid":
        rd = tuple(n // 2 for n in N) if case["radii"] is None else O.triple(case["radii"])
        exp = O.ellipsoid(N, c, rd)[0]
    elif fn == "s_shell":
        r = F(min(N) // 2) if case["r"] is None else F(case["r"])
        exp = O.sphere(N, c, r + F(case["t"], 2))[0] & ~O.sphere(N, c, r - F(case["t"], 2))[0]
    else:
        exp = None
    case["n_in"] = int(exp.sum()) if exp is not None else -1
    case["n_vox"] = int(np.prod(N))
    case["summary"] = {k: case.get(k) for k in ("fn", "N", "centre", "centre_kind", "r", "h", "radii", "t", "calls", "size_fmt", "centre_fmt", "radii_fmt", "num_kind", "near") if k in case}
    return case


def gen_named(rng, tier, i):
    kind = ["sphere", "cylinder", "s_shell", "ellipsoid", "e_shell"][(i // len(CLASSES)) % 5]
    explicit = rng.random() < 0.55
    ms = None
    if kind == "sphere":
        r = int(rng.integers(1, 23)) if not explicit else int(rng.integers(1, 40))
        name = "sphere_r%d" % r
        if explicit:
            ms = int(rng.integers(6, 49))
    elif kind == "cylinder":
        r, h = (int(rng.integers(1, 23)), int(rng.integers(1, 23))) if not explicit else (int(rng.integers(1, 40)), int(rng.integers(1, 60)))
        name = "cylinder_r%d_h%d" % (r, h)
        if explicit:
            ms = int(rng.integers(6, 49))
    elif kind == "s_shell":
        while True:
            r, s = int(rng.integers(1, 20)), int(rng.integers(1, 9))
            if r - s / 2 >= 0:
                break
        name = "s_shell_r%d_s%d" % (r, s)
        if explicit:
            ms = int(rng.integers(6, 49 - s - 1))
    elif kind == "ellipsoid":
        rr = [int(rng.integers(1, 23 if not explicit else 40)) for _ in range(3)]
        if explicit and rng.random() < 0.15:
            rr = [27, 27, 27]
        name = "ellipsoid_rx%d_ry%d_rz%d" % tuple(rr)
        if explicit:
            ms = 2 * int(rng.integers(3, 25)) if rr != [27, 27, 27] else int(rng.choice([46, 48]))
    else:
        while True:
            rr = [int(rng.integers(2, 21 if not explicit else 36)) for _ in range(3)]
            s = int(rng.choice([2, 2, 4, 6, 1, 3]))
            if min(rr) - s / 2 >= 1:
                break
        name = "e_shell_rx%d_ry%d_rz%d_s%d" % (rr[0], rr[1], rr[2], s)
        if explicit:
            ms = 2 * int(rng.integers(3, 25))
    exp = None if explicit or rng.random() < 0.6 else int(rng.choice([0, 2, 4, 6]))
    case = {"family": "named", "name": name, "mask_size": ms, "expansion": exp, "kind": kind}
    case["summary"] = {"name": name, "mask_size": ms, "expansion": exp}
    return case


# ---- mask lists ----------------------------------------------------------------------------------------------
BIN_DTYPES = ["float64", "float32", "int64", "int32", "uint8", "bool", "int8", "int16"]


def _binary_shape(rng, N):
    """an own binary mask (bool) built with the oracle shapes / random voxels; deliberately overlapping others"""
    k = str(rng.choice(["sphere", "cyl", "ell", "half", "noise", "noise", "sphere", "cyl", "ell", "half", "noise", "noise", "zeros", "ones", "one_voxel"]))
    if k in ("zeros", "ones", "one_voxel"):                  # value-specific: empty, full, single-voxel masks
        b = np.full(N, k == "ones", dtype=bool)
        if k == "one_voxel":
            b[tuple(int(rng.integers(0, n)) for n in N)] = True
        return b, k
    c = tuple(int(rng.integers(n // 4, max(n // 4 + 1, (3 * n) // 4))) for n in N)
    if k == "sphere":
        return O.sphere(N, c, O.Fraction(int(rng.integers(2, max(3, max(N) // 2)))))[0], k
    if k == "cyl":
        return O.cylinder(N, c, O.Fraction(int(rng.integers(2, max(3, max(N[:2]) // 2)))), int(rng.integers(1, max(2, N[2] // 2))))[0], k
    if k == "ell":
        return O.ellipsoid(N, c, tuple(int(rng.integers(2, max(3, n // 2 + 2))) for n in N))[0], k
    if k == "half":
        I = np.indices(N)
        a = int(rng.integers(0, 3))
        return (I[a] >= int(rng.integers(1, N[a] - 1))) ^ bool(rng.integers(0, 2)), k
    return rng.random(N) < float(rng.choice([0.1, 0.5, 0.9])), k


def _soft_field(rng, N):
    k = str(rng.choice(["uniform", "blob", "edges"]))
    if k == "uniform":
        return rng.random(N), k
    b = _binary_shape(rng, N)[0].astype(float)
    if k == "blob":                                  # own crude smoothing (box average), stays within [0,1]
        for a in range(3):
            b = (b + np.roll(b, 1, a) + np.roll(b, -1, a)) / 3.0
        return np.clip(b, 0.0, 1.0), k
    b = np.clip(b * float(rng.uniform(0.3, 1.0)) + 0.05 * rng.random(N), 0.0, 1.0)
    b.flat[int(rng.integers(0, b.size))] = 1.0
    b.flat[int(rng.integers(0, b.size))] = 0.0
    return b, k


def gen_algebra(rng, cls, tier):
    N = _box(rng, small=(tier == "quick"), cubic=rng.random() < 0.15) if cls != "alg_real_outputs" else _box(rng, even=True, small=True)
    n = {"alg_pair": 2, "alg_dtypes": int(rng.choice([2, 2, 3])), "alg_list": int(rng.choice([1, 3, 3, 4, 5, 5])),
         "alg_soft": int(rng.integers(1, 5)), "alg_files": int(rng.integers(1, 5)), "alg_real_outputs": int(rng.integers(2, 5))}[cls]
    ents = []
    for k in range(n):
        e = {"as": "array", "layout": "C"}
        if cls == "alg_real_outputs":
            fn = str(rng.choice(["ellipsoid", "ellipsoid", "sphere", "cylinder", "s_shell", "e_shell"]))
            e.update(kind="real", fn=fn, r=int(rng.integers(2, max(3, min(N) // 2 + 3))), h=int(rng.integers(1, N[2] + 4)),
                     radii=tuple(int(rng.integers(3, n_ // 2 + 4)) for n_ in N), t=2,
                     centre=_centre(rng, N, str(rng.choice(["default", "interior", "anywhere"]))),
                     sigma=0 if rng.random() < 0.75 else _sigma(rng), dtype="asis")
        else:
            soft = cls == "alg_soft" and (k == 0 or rng.random() < 0.7)
            if soft:
                arr, sk = _soft_field(rng, N)
                e.update(kind="soft:" + sk, dtype=str(rng.choice(["float64", "float64", "float32"])))
                e["arr"] = arr.astype(e["dtype"])
            else:
                b, sk = _binary_shape(rng, N)
                if cls == "alg_pair":
                    dt = "float64"
                elif cls == "alg_dtypes":
                    dt = ["bool", "int64", "uint8", "float64", "int32", "float32", "int8"][int(rng.integers(0, 7))] if k else \
                        ["bool", "bool", "int64", "uint8", "int32", "float32"][int(rng.integers(0, 6))]
                else:
                    dt = str(rng.choice(BIN_DTYPES))
                e.update(kind="bin:" + sk, dtype=dt)
                e["arr"] = b.astype(dt)
            if rng.random() < (0.5 if cls == "alg_dtypes" else 0.25):
                e["layout"] = str(rng.choice(["F", "view", "swap", "neg", "ro", "T"]))
            if cls == "alg_files" and (k == 0 or rng.random() < 0.7):
                ext = str(rng.choice(["mrc", "em"]))
                if e["kind"].startswith("soft"):
                    code = 2 if ext == "mrc" else int(rng.choice([5, 9]))
                else:
                    code = int(rng.choice([2, 0, 1, 6])) if ext == "mrc" else int(rng.choice([5, 1, 2, 4, 9]))
                e.update({"as": ext, "code": code})
        ents.append(e)
    case = {"family": "algebra", "N": N, "ents": ents, "with_output": bool(rng.random() < 0.3)}
    case["summary"] = {"N": N, "masks": [{k: (v if k != "arr" else int(np.count_nonzero(v))) for k, v in e.items()} for e in ents]}
    bins = [e["arr"] != 0 for e in ents if "arr" in e]
    case["partial_overlap"] = cls == "alg_real_outputs" or (
        len(bins) >= 2 and bool((bins[0] & bins[1]).any()) and bool((bins[0] ^ bins[1]).any()))
    return case


def gen_history(rng, tier, i):
    """three-step histories: the caller mutates an argument it owns in place between calls"""
    if (i // len(CLASSES)) % 2 == 0:
        N = _box(rng, small=True, cubic=rng.random() < 0.2)
        dts = [str(rng.choice(BIN_DTYPES)) for _ in range(2)]
        if rng.random() < 0.4:
            dts[0] = "float64"
        arrs = [_binary_shape(rng, N)[0].astype(dt) for dt in dts]
        regions = []
        for _ in range(2):
            lo = [int(rng.integers(0, n - 2)) for n in N]
            regions.append([(lo[a], int(rng.integers(lo[a] + 1, N[a] + 1))) for a in range(3)])
        case = {"family": "history", "kind": "algebra", "N": N, "arrs": arrs, "regions": regions}
        case["summary"] = {"kind": "algebra", "N": N, "dtypes": dts, "nnz": [int(np.count_nonzero(a)) for a in arrs], "regions": regions}
        return case
    fn = ["sphere", "cylinder", "ellipsoid", "s_shell"][(i // (2 * len(CLASSES))) % 4]
    N = _box(rng, even=(fn == "ellipsoid"), small=True)
    N = tuple(min(n, 44) for n in N)
    c = tuple(int(rng.integers(1, n - 1)) for n in N)
    steps = []
    a = int(rng.integers(0, 3))
    steps.append(("centre", a, 1 if c[a] + 1 < N[a] - 1 else -1))
    steps.append(("size", int(rng.integers(0, 3)), 2))
    steps.append(("radius", int(rng.integers(0, 3)), int(rng.choice([1, 2, 3]))))
    case = {"family": "history", "kind": "shape", "fn": fn, "N": N, "centre": c, "r": _radius(rng, N, str(rng.choice(["medium", "large"]))),
            "h": int(rng.integers(1, 2 * N[2])), "radii": tuple(_radius(rng, (n,), str(rng.choice(["medium", "large"]))) for n in N),
            "t": 2, "steps": steps, "sigma": _sigma(rng)}
    if fn == "s_shell":
        case["r"] = max(case["r"], 2)
    case["summary"] = {k: case[k] for k in ("kind", "fn", "N", "centre", "r", "h", "radii", "steps", "sigma")}
    return case


def gen(ctx, i, cls):
    rng = ctx.rng(i)
    if cls == "history":
        case = gen_history(rng, ctx.tier, i)
    elif cls == "named":
        case = gen_named(rng, ctx.tier, i)
    elif cls.startswith("alg_"):
        case = gen_algebra(rng, cls, ctx.tier)
    else:
        case = gen_shape(rng, cls, ctx.tier)
    case["i"], case["cls"] = i, cls
    return case


def nontrivial(case):
    if case["family"] == "shape":
        return case["n_in"] == -1 or 0 < case["n_in"] < case["n_vox"]
    if case["family"] in ("named", "history"):
        return True
    return len(case["ents"]) >= 2 and case["partial_overlap"]


# =================================================================================================
# driver
# =================================================================================================
def _same(a, b):
    a, b = np.asarray(a), np.asarray(b)
    return a.shape == b.shape and bool(np.array_equal(a.astype(float), b.astype(float)))


def _first_diff(a, b):
    a, b = np.asarray(a), np.asarray(b)
    if a.shape != b.shape:
        return {"what": "shape", "got": list(a.shape), "expected": list(b.shape)}
    bad = np.argwhere(a.astype(float) != b.astype(float))
    idx = tuple(int(v) for v in bad[0])
    return {"voxel": idx, "got": float(a[idx]), "expected": float(b[idx]), "n_wrong": int(len(bad))}


def call_shape(ctx, case, call):
    cm = ctx.cmk
    size = fmt_size(case["N"], case["size_fmt"])
    centre = fmt_centre(case["centre"], case["centre_fmt"])
    fn = case["fn"]
    g = make_sigma(call["sigma"], call.get("gk", "py"))
    nk = case.get("num_kind", "py")
    if fn in ("s_shell", "e_shell"):
        t = make_num(case["t"], nk)
        if fn == "s_shell":
            return ctx.call("spherical_shell_mask", cm.spherical_shell_mask, size, t, radius=make_num(case["r"], nk), center=centre, gaussian=g)
        return ctx.call("ellipsoid_shell_mask", cm.ellipsoid_shell_mask, size, t, list(case["radii"]), center=centre, gaussian=g)
    ow = make_flag(call["outwards"], call.get("flag", "py"))
    if fn == "sphere":
        return ctx.call("spherical_mask", cm.spherical_mask, size, radius=make_num(case["r"], nk), center=centre, gaussian=g,
                        gaussian_outwards=ow)
    if fn == "cylinder":
        kw = {}
        if case["i"] % 3 == 0:
            kw["angles"] = [None, np.zeros(3), [0, 0, 0]][(case["i"] // 3) % 3]
        return ctx.call("cylindrical_mask", cm.cylindrical_mask, size, radius=make_num(case["r"], nk), height=make_num(case["h"], nk),
                        center=centre, gaussian=g, gaussian_outwards=ow, **kw)
    radii = case["radii"]
    if isinstance(radii, tuple):
        how = case.get("radii_fmt", "tuple")
        radii = list(radii) if how == "list" else radii if how == "tuple" else as_array(radii, how)
    return ctx.call("ellipsoid_mask", cm.ellipsoid_mask, size, radii=radii, center=centre, gaussian=g, gaussian_outwards=ow)


def run_shape(ctx, case):
    cm = ctx.cmk
    hard = None
    for call in case["calls"]:
        ok, res = call_shape(ctx, case, call)
        if ok and call["sigma"] == 0:
            hard = res
    if hard is None:
        return
    size, centre = fmt_size(case["N"], case["size_fmt"]), fmt_centre(case["centre"], case["centre_fmt"])
    if case.get("near"):
        # the same solid as outer and as inner solid of a shell, and through the name-based generator
        rd = np.array(case["radii"])
        if rd.min() >= 3:
            ctx.call("ellipsoid_shell_mask", cm.ellipsoid_shell_mask, size, 2, [int(v) for v in rd - 1], center=centre)
        ctx.call("ellipsoid_shell_mask", cm.ellipsoid_shell_mask, size, 2, [int(v) for v in rd + 1], center=centre)
        mo = max(case["near"]["offset"])
        if mo <= 23:
            n = min(48, 2 * mo + 2 + 2 * (case["i"] % 3))
            ctx.call("generate_mask", cm.generate_mask, "ellipsoid_rx%d_ry%d_rz%d" % tuple(int(v) for v in rd), mask_size=max(6, n))
    if case["fn"] == "s_shell":
        r = min(case["N"]) // 2 if case["r"] is None else case["r"]
        ok1, a = ctx.call("spherical_mask(outer)", cm.spherical_mask, size, radius=r + case["t"] / 2, center=centre)
        ok2, b = ctx.call("spherical_mask(inner)", cm.spherical_mask, size, radius=r - case["t"] / 2, center=centre)
        if ok1 and ok2:
            exp = (np.asarray(a) != 0) & ~(np.asarray(b) != 0)
            good = _same(np.asarray(hard) != 0, exp) and O.is_binary(hard)
            ctx.check("shell_relational", good, None if good else dict(_first_diff(np.asarray(hard) != 0, exp), function="spherical_shell_mask",
                                                                      box=case["N"], radius=r, thickness=case["t"], centre=case["centre"]))
    elif case["fn"] == "e_shell":
        rd = np.array(case["radii"])
        ok1, a = ctx.call("ellipsoid_mask(outer)", cm.ellipsoid_mask, size, radii=rd + case["t"] / 2, center=centre)
        ok2, b = ctx.call("ellipsoid_mask(inner)", cm.ellipsoid_mask, size, radii=rd - case["t"] / 2, center=centre)
        if ok1 and ok2:
            exp = (np.asarray(a) != 0) & ~(np.asarray(b) != 0)
            good = _same(np.asarray(hard) != 0, exp) and O.is_binary(hard)
            ctx.check("shell_relational", good, None if good else dict(_first_diff(np.asarray(hard) != 0, exp), function="ellipsoid_shell_mask",
                                                                      box=case["N"], radii=case["radii"], thickness=case["t"], centre=case["centre"]))


def run_named(ctx, case):
    cm = ctx.cmk
    kw = {}
    if case["mask_size"] is not None:
        kw["mask_size"] = [int, int, float, np.float64][(case["i"] // len(CLASSES)) % 4](case["mask_size"])
    if case["expansion"] is not None:
        kw["mask_expansion"] = [int, np.int64][(case["i"] // len(CLASSES)) % 2](case["expansion"])
    ok, res = ctx.call("generate_mask", cm.generate_mask, case["name"], **kw)
    if not ok:
        return
    a = np.asarray(res)
    if a.ndim != 3:
        ctx.check("name_vs_direct", False, {"what": "generate_mask did not return a volume", "name": case["name"], "shape": list(a.shape)})
        return
    n = int(a.shape[0])
    kind, v = O.parse_name(case["name"])
    if kind == "sphere":
        ok, d = ctx.call("spherical_mask", cm.spherical_mask, n, radius=v["r"])
    elif kind == "cylinder":
        ok, d = ctx.call("cylindrical_mask", cm.cylindrical_mask, n, radius=v["r"], height=v["h"])
    elif kind == "s_shell":
        ok, d = ctx.call("spherical_shell_mask", cm.spherical_shell_mask, n, v["s"], radius=v["r"])
    elif kind == "ellipsoid":
        ok, d = ctx.call("ellipsoid_mask", cm.ellipsoid_mask, n, radii=[v["rx"], v["ry"], v["rz"]])
    else:
        ok, d = ctx.call("ellipsoid_shell_mask", cm.ellipsoid_shell_mask, n, v["s"], [v["rx"], v["ry"], v["rz"]])
    if ok:
        good = _same(a, d)
        ctx.check("name_vs_direct", good, None if good else dict(_first_diff(a, d), name=case["name"], mask_size=case["mask_size"], box=n))


STEMS = {"em": ["ribosome", "frame", "em", "meme", "x.mrc", "m a*?", "m\u00e4sk_\u00e9", "[1]", "plain"],
         "mrc": ["arc", "mcr", "crm", "mrc", "frame.em", "m a*?", "m\u00e4sk_\u00e9", "[1]", "a.b", "plain"]}
SUBDIRS = ["", "sub dir", os.path.join("d\u00e9p\u00f4t [2]", "x?"), ""]


def mask_path(ctx, i, k, ext, tag="m"):
    """file names whose stem ends in the letters of the extension, with spaces / glob characters / non-ASCII letters, in
    sub-directories, absolute or relative to the working directory (the shard's scratch directory)"""
    stem = STEMS[ext][(i // len(CLASSES) + k) % len(STEMS[ext])]
    sub = SUBDIRS[(i // (3 * len(CLASSES)) + k) % len(SUBDIRS)]
    d = os.path.join(ctx.scratch, sub)
    os.makedirs(d, exist_ok=True)
    p = os.path.join(d, "%s%d_%d_%s.%s" % (tag, i, k, stem, ext))
    if (i // len(CLASSES) + k) % 3 == 0 and os.path.realpath(os.getcwd()) == os.path.realpath(ctx.scratch):
        p = os.path.relpath(p, os.getcwd())
    return p


def build_masks(ctx, case):
    """-> list of list entries (arrays / paths) or None"""
    cm = ctx.cmk
    out = []
    for k, e in enumerate(case["ents"]):
        if e["kind"] == "real":
            N, c, g = list(case["N"]), (list(e["centre"]) if e["centre"] is not None else None), e["sigma"]
            if e["fn"] == "sphere":
                ok, a = ctx.call("spherical_mask", cm.spherical_mask, N, radius=e["r"], center=c, gaussian=g)
            elif e["fn"] == "cylinder":
                ok, a = ctx.call("cylindrical_mask", cm.cylindrical_mask, N, radius=e["r"], height=e["h"], center=c, gaussian=g)
            elif e["fn"] == "ellipsoid":
                ok, a = ctx.call("ellipsoid_mask", cm.ellipsoid_mask, N, radii=list(e["radii"]), center=c, gaussian=g,
                                 gaussian_outwards=False)
            elif e["fn"] == "s_shell":
                ok, a = ctx.call("spherical_shell_mask", cm.spherical_shell_mask, N, e["t"], radius=e["r"], center=c)
            else:
                ok, a = ctx.call("ellipsoid_shell_mask", cm.ellipsoid_shell_mask, N, e["t"], list(e["radii"]), center=c)
            if not ok:
                return None
            a = np.asarray(a)
            if a.dtype.kind == "f":
                a = np.clip(a, 0.0, 1.0)             # list entries of the algebra lie in [0,1] by the quantifier
            out.append(a)
            continue
        arr = e["arr"]
        if e["as"] == "array":
            a = arr.copy()
            if e["layout"] == "F":
                a = np.asfortranarray(a)
            elif e["layout"] == "swap":                        # partially permuted axes: a swapaxes view holding the same values
                a = np.swapaxes(np.ascontiguousarray(np.swapaxes(a, 1, 2)), 1, 2)
            elif e["layout"] == "neg":                         # negative strides
                a = np.ascontiguousarray(a[::-1, :, ::-1])[::-1, :, ::-1]
            elif e["layout"] == "T":
                a = np.ascontiguousarray(a.transpose(2, 1, 0)).T
            elif e["layout"] == "ro":
                a.setflags(write=False)
            elif e["layout"] == "view":
                big = np.zeros(tuple(2 * n for n in arr.shape), dtype=arr.dtype)
                big[::2, ::2, ::2] = arr
                a = big[::2, ::2, ::2]
            out.append(a)
        else:
            p = mask_path(ctx, case["i"], k, e["as"])
            if e["as"] == "mrc":
                files.write_mrc_raw(p, arr.astype(files.MRC_MODES[e["code"]]), mode=e["code"])
            else:
                files.write_em_raw(p, arr.astype(files.EM_DTYPES[e["code"]]), code=e["code"])
            out.append(p)
    return out


def run_algebra(ctx, case):
    cm = ctx.cmk
    ml = build_masks(ctx, case)
    if ml is None:
        return
    ops = [("union", cm.union), ("intersection", cm.intersection), ("subtraction", cm.subtraction), ("difference", cm.difference)]
    lists = [ml]
    if len(ml) > 2:
        j = 1 + case["i"] % (len(ml) - 1)
        lists.append([ml[0], ml[j]])
        lists.append([ml[j], ml[0]])
    elif len(ml) == 2:
        lists.append([ml[1], ml[0]])
    any_file = any(isinstance(m, str) for m in ml)
    outp = mask_path(ctx, case["i"], 9, ["mrc", "em"][case["i"] % 2], tag="out") if case["with_output"] else None
    for li, lst in enumerate(lists):
        if li and li % 2 == 0:
            lst = tuple(lst)
        for name, f in ops:
            if li == 0 and outp is not None:
                ok, res = ctx.call(name, f, lst, output_name=outp)
            else:
                ok, res = ctx.call(name, f, lst)
            if ok and any_file and li == 0:
                arrs = [read_entry(m)["values"] if isinstance(m, str) else m for m in lst]
                ok2, res2 = ctx.call(name + "(arrays)", f, arrs)
                if ok2:
                    good = _same(res, res2)
                    ctx.check("file_vs_array", good, None if good else dict(_first_diff(res, res2), op=name,
                                                                            entries=[m if isinstance(m, str) else str(m.dtype) for m in lst]))
    # objects produced by one operation fed into another (judged by the call monitors like fresh inputs)
    oku, u = ctx.call("union", cm.union, ml)
    oki, n_ = ctx.call("intersection", cm.intersection, ml)
    if oku and oki:
        ctx.call("difference", cm.difference, [u, n_])
        ctx.call("subtraction", cm.subtraction, [u, n_])
        first = ml[0] if isinstance(ml[0], np.ndarray) else u
        ctx.call("intersection", cm.intersection, [u, first])
        ctx.call("union", cm.union, [n_, first, u])
    for m in ml:
        if isinstance(m, str):
            try:
                os.remove(m)
            except OSError:
                pass
    if outp and os.path.exists(outp):
        os.remove(outp)


def _all_ops(ctx, lst):
    cm = ctx.cmk
    for name, f in (("union", cm.union), ("intersection", cm.intersection), ("subtraction", cm.subtraction), ("difference", cm.difference)):
        ctx.call(name, f, lst)


def _flip(a, region):
    sl = tuple(slice(lo, hi) for lo, hi in region)
    a[sl] = ~a[sl] if a.dtype == bool else 1 - a[sl]


def run_history(ctx, case):
    """every call is judged by the call monitors against the values the arguments hold at that moment"""
    cm = ctx.cmk
    if case["kind"] == "algebra":
        A, B = (a.copy() for a in case["arrs"])
        _all_ops(ctx, [A, B])
        _flip(A, case["regions"][0])                  # caller-owned first mask modified in place
        _all_ops(ctx, [A, B])
        _flip(B, case["regions"][1])
        _all_ops(ctx, [A, B])
        _all_ops(ctx, [B, A])
        _all_ops(ctx, [A, A])                          # the same object twice / an exact duplicate
        _all_ops(ctx, [A, A.copy(), B])
        return
    size, centre = np.array(case["N"], dtype=np.int64), np.array(case["centre"], dtype=np.int64)
    radii = np.array(case["radii"], dtype=np.int64)
    st = {"r": case["r"], "h": case["h"]}

    def call(g, outwards=True):
        fn = case["fn"]
        if fn == "sphere":
            return ctx.call("spherical_mask", cm.spherical_mask, size, radius=st["r"], center=centre, gaussian=g, gaussian_outwards=outwards)
        if fn == "cylinder":
            return ctx.call("cylindrical_mask", cm.cylindrical_mask, size, radius=st["r"], height=st["h"], center=centre, gaussian=g,
                            gaussian_outwards=outwards)
        if fn == "ellipsoid":
            return ctx.call("ellipsoid_mask", cm.ellipsoid_mask, size, radii=radii, center=centre, gaussian=g, gaussian_outwards=outwards)
        return ctx.call("spherical_shell_mask", cm.spherical_shell_mask, size, case["t"], radius=st["r"], center=centre, gaussian=g)

    call(0)
    for what, a, d in case["steps"]:
        if what == "centre":
            centre[a] += d
        elif what == "size":
            size[a] += d
        else:
            radii[a] += d
            st["r"] += d
            st["h"] += d
        call(0)
        call(case["sigma"], outwards=make_flag(bool(a % 2), FLAG_KINDS[(case["i"] // len(CLASSES) + a) % len(FLAG_KINDS)]))


def run_case(ctx, case):
    if case["family"] == "history":
        run_history(ctx, case)
    elif case["family"] == "shape":
        run_shape(ctx, case)
    elif case["family"] == "named":
        run_named(ctx, case)
    else:
        run_algebra(ctx, case)


BLOCK_BOXES = [(8, 8, 8), (8, 8, 16), (16, 16, 16), (16, 16, 32), (32, 32, 32), (13, 15, 21), (33, 33, 33), (17, 17, 17), (31, 32, 33),
               (33, 32, 31), (32, 33, 31), (19, 27, 6), (6, 19, 27), (6, 25, 41), (25, 41, 6), (48, 48, 48), (47, 48, 46), (15, 16, 17),
               (16, 32, 48), (48, 32, 16), (33, 6, 6), (6, 33, 6), (6, 6, 33), (32, 8, 8), (34, 8, 8), (17, 8, 8), (16, 8, 8), (18, 8, 8)]


def _modular_boxes():
    """boxes whose total voxel count is 1 above a multiple of a power-of-two block (a flat blocked loop with an off-by-one bound
    drops exactly the last voxel there): the two smallest boxes per block size"""
    out = []
    for blk in (64, 128, 256, 512):   # no box in 6..48 has a voxel count of 1 modulo 1024 or a larger power of two
        found = []
        for a in range(6, 49):
            for b in range(a, 49):
                for c in range(b, 49):
                    if a * b * c > blk and (a * b * c) % blk == 1:
                        found.append((a * b * c, (a, b, c)))
        out += [t for _, t in sorted(found)[:2]]
    return out


BLOCK_BOXES += [b for b in _modular_boxes() if b not in BLOCK_BOXES]


def _reach(c, n):
    return max(int(c), int(n) - 1 - int(c))


def _shape_battery(ctx, rng, N, c, a, soft):
    """all shape functions on box N with centre c (None = default), sized so that the shape reaches the first and the last
    plane of axis a (the tip exactly on the farther face, or up to 2 voxels more)"""
    cm = ctx.cmk
    n_calls = 0
    cc = c if c is not None else tuple(m // 2 for m in N)
    r = _reach(cc[a], N[a]) + int(rng.integers(0, 3))
    big = max(N) + 2
    even = all(m % 2 == 0 for m in N)
    cen = None if c is None else [list(c), tuple(c), np.array(c)][int(rng.integers(0, 3))]
    size = [list(N), tuple(N), np.array(N)][int(rng.integers(0, 3))]
    ctx.call("spherical_mask", cm.spherical_mask, size, radius=r, center=cen)
    ctx.call("spherical_shell_mask", cm.spherical_shell_mask, size, 2, radius=r - 1, center=cen)
    if a < 2:
        ctx.call("cylindrical_mask", cm.cylindrical_mask, size, radius=r, height=2 * N[2] + 1, center=cen)
    else:
        ctx.call("cylindrical_mask", cm.cylindrical_mask, size, radius=big, height=2 * r + int(rng.integers(0, 2)), center=cen)
    n_calls += 3
    if c is None:                                      # documented defaults on this box
        ctx.call("spherical_mask", cm.spherical_mask, size)
        ctx.call("cylindrical_mask", cm.cylindrical_mask, size)
        ctx.call("cylindrical_mask", cm.cylindrical_mask, size, height=3)
        ctx.call("spherical_shell_mask", cm.spherical_shell_mask, size, 2)
        n_calls += 4
        if even:
            ctx.call("ellipsoid_mask", cm.ellipsoid_mask, size)
            n_calls += 1
    if soft:
        fk = [str(rng.choice(FLAG_KINDS)) for _ in range(2)]
        ctx.call("spherical_mask", cm.spherical_mask, size, radius=r, center=cen, gaussian=0.6, gaussian_outwards=make_flag(True, fk[0]))
        ctx.call("cylindrical_mask", cm.cylindrical_mask, size, radius=r if a < 2 else big, height=2 * N[2] + 1 if a < 2 else 2 * r, center=cen,
                 gaussian=0.6, gaussian_outwards=make_flag(True, fk[1]))
        n_calls += 2
    if even:
        radii = [m + 2 for m in N]
        radii[a] = r
        ctx.call("ellipsoid_mask", cm.ellipsoid_mask, size, radii=radii, center=cen)
        ctx.call("ellipsoid_shell_mask", cm.ellipsoid_shell_mask, size, 2, [v - 1 for v in radii], center=cen)
        n_calls += 2
        if soft:
            ctx.call("ellipsoid_mask", cm.ellipsoid_mask, size, radii=radii, center=cen, gaussian=0.6,
                     gaussian_outwards=make_flag(bool(rng.integers(0, 2)), str(rng.choice(FLAG_KINDS))))
            n_calls += 1
    return n_calls


def _algebra_battery(ctx, rng, N):
    A = (rng.random(N) < 0.5).astype([np.float64, bool, np.uint8, np.float32][int(rng.integers(0, 4))])
    B = (rng.random(N) < 0.5).astype([np.float64, bool, np.int64][int(rng.integers(0, 3))])
    _all_ops(ctx, [A, B])
    return 4


def sweep(ctx):
    """every box size 6..48 on every axis (shapes reaching the first and last plane of that axis), block-boundary boxes
    (2^k, 2^k +- 1 voxels per axis / per plane / in total), cubic boxes of every size through the name-based generator"""
    cm = ctx.cmk
    V = 8 if ctx.tier == "quick" else 24
    n_calls = 0
    for a in range(3):
        for n in range(O.BOX_MIN, O.BOX_MAX + 1):
            for v in range(V):
                rng = ctx.rng(3000000 + ((a * 64 + n) * 64 + v))
                if n % 2 == 0 and v % 4 != 3:
                    N = [int(rng.choice([6, 8, 10, 12])) for _ in range(3)]
                else:
                    N = [int(rng.integers(6, 13)) for _ in range(3)]
                N[a] = n
                N = tuple(N)
                kind = ["default", "corner", "face", "anywhere", "anywhere", "edge", "interior", "anywhere"][v % 8]
                c = _centre(rng, N, kind)
                n_calls += _shape_battery(ctx, rng, N, c, a, soft=(v % 3 == 0))
                if v == 0:
                    n_calls += _algebra_battery(ctx, rng, N)
    ctx.extra["sweep: every size 6..48 on every axis x %d variants (sphere, shell, cylinder, ellipsoid/shell on even boxes) reaching both end planes: calls" % V] = n_calls
    n_calls = 0
    for k, N in enumerate(BLOCK_BOXES):
        for v in range(4 if ctx.tier == "quick" else 10):
            rng = ctx.rng(4000000 + k * 64 + v)
            c = _centre(rng, N, ["default", "anywhere", "corner", "face"][v % 4])
            n_calls += _shape_battery(ctx, rng, N, c, v % 3, soft=(v == 1))
        n_calls += _algebra_battery(ctx, ctx.rng(4100000 + k), N)
    ctx.extra["sweep: %d block-boundary boxes (2^k, 2^k+-1 per axis/plane/total) x all shape functions + set algebra: calls" % len(BLOCK_BOXES)] = n_calls
    n_calls = 0
    for n in range(O.BOX_MIN, O.BOX_MAX + 1):
        names = ["sphere_r%d" % (n // 2 + 1), "sphere_r%d" % n, "cylinder_r%d_h%d" % (n // 2, n + 2), "cylinder_r%d_h%d" % (n, n - 1)]
        for nm in names:
            ctx.call("generate_mask", cm.generate_mask, nm, mask_size=n)
        n_calls += len(names)
        if n % 2 == 0:
            ctx.call("generate_mask", cm.generate_mask, "ellipsoid_rx%d_ry%d_rz%d" % (n // 2, n, n // 2 + 1), mask_size=n)
            ctx.call("generate_mask", cm.generate_mask, "s_shell_r%d_s2" % (n // 2 - 1), mask_size=n - 2)     # returned box: n
            ctx.call("generate_mask", cm.generate_mask, "s_shell_r%d_s2" % n, mask_size=n - 2)
            n_calls += 3
            if n >= 8:
                ctx.call("generate_mask", cm.generate_mask, "e_shell_rx%d_ry%d_rz%d_s2" % (n // 2, n, n // 2 - 1), mask_size=n)
                n_calls += 1
    ctx.extra["sweep: name-based generator on cubic boxes of every size 6..48: calls"] = n_calls


# =================================================================================================
def extra(ctx):
    """exhaustive sub-spaces: every centre of a small non-cubic box for a set of radii/heights (hard edge)"""
    cm = ctx.cmk
    thorough = ctx.tier == "thorough"
    N = (6, 7, 8)
    n = 0
    radii = [1, 2, 3, 5, 9] if not thorough else list(range(1, 13))
    for c in np.ndindex(*N):
        for r in radii:
            ctx.call("spherical_mask", cm.spherical_mask, N, radius=r, center=c)
            n += 1
    ctx.extra["exhaustive sphere: box (6,7,8), all %d centres x radii %s" % (int(np.prod(N)), radii)] = n
    n = 0
    rs, hs = ([1, 3], [1, 2, 5, 20]) if not thorough else ([1, 2, 3, 4, 6, 10], [1, 2, 3, 4, 5, 7, 8, 9, 16, 20])
    for c in np.ndindex(*N):
        for r in rs:
            for h in hs:
                ctx.call("cylindrical_mask", cm.cylindrical_mask, N, radius=r, height=h, center=c)
                n += 1
    ctx.extra["exhaustive cylinder: box (6,7,8), all centres x radii %s x heights %s" % (rs, hs)] = n
    n = 0
    N = (6, 8, 10)
    rr = [(1, 2, 3), (3, 3, 3), (5, 2, 7)] if not thorough else [(1, 2, 3), (3, 3, 3), (5, 2, 7), (1, 1, 1), (2, 5, 5), (4, 3, 5), (6, 8, 10), (12, 1, 2)]
    for c in np.ndindex(*N):
        for r3 in rr:
            ctx.call("ellipsoid_mask", cm.ellipsoid_mask, N, radii=r3, center=c)
            n += 1
    ctx.extra["exhaustive ellipsoid: box (6,8,10), all %d centres x radii %s" % (int(np.prod(N)), rr)] = n
    sweep(ctx)
