"""vmon.core - case/verdict bookkeeping, seeding, shard runner, watchdog, evidence writer.

Runtime-monitoring harness for the cryoCAT properties (see /verif/DESIGN.md section 2).
A *property module* (vmon/props/cNN.py) provides

    PROP, RULE, ASSUMPTIONS                     strings / list
    plan(tier) -> dict(n_cases, shards, classes, min_evals{monitor: n}, timeout_s)
    setup(ctx)                                  install call monitors / anchor tracing (imports cryoCAT)
    gen(ctx, i, cls) -> case dict               deterministic in (seed, tier, i); must contain "summary"
    nontrivial(case) -> bool
    run_case(ctx, case)                         drives the real API, evaluates the oracles via ctx.check
    extra(ctx)              (optional)          exhaustive sub-spaces, run by shard 0 only

Verdicts are three-valued: violated (exit 1), held on what was observed (exit 0), inconclusive (exit 2).
"""
import collections
import hashlib
import importlib
import json
import os
import shutil
import subprocess
import sys
import tempfile
import time
import traceback

VERIF = os.path.dirname(os.path.dirname(os.path.abspath(__file__)))
OUT = os.path.join(VERIF, "out")
MAX_WITNESSES = 12          # replay files written per shard
MAX_SAMPLES = 4


class HarnessError(Exception):
    """A fault of the monitoring machinery itself (never a verdict about cryoCAT)."""


def _h64(*parts):
    return int.from_bytes(hashlib.sha256(repr(parts).encode()).digest()[:8], "big")


def jsonable(x, depth=0):
    """Best-effort conversion of witnesses/summaries to JSON (numpy, pandas, tuples...)."""
    import numpy as np
    if depth > 6:
        return str(x)[:200]
    if x is None or isinstance(x, (bool, int, str)):
        return x
    if isinstance(x, float):
        return x if x == x and abs(x) != float("inf") else repr(x)
    if isinstance(x, (np.integer,)):
        return int(x)
    if isinstance(x, (np.floating,)):
        return jsonable(float(x))
    if isinstance(x, np.bool_):
        return bool(x)
    if isinstance(x, np.ndarray):
        if x.size > 60:
            return {"ndarray": list(x.shape), "dtype": str(x.dtype), "head": jsonable(x.ravel()[:12].tolist(), depth + 1)}
        return jsonable(x.tolist(), depth + 1)
    if isinstance(x, dict):
        return {str(k): jsonable(v, depth + 1) for k, v in list(x.items())[:60]}
    if isinstance(x, (list, tuple, set, frozenset)):
        x = list(x)
        out = [jsonable(v, depth + 1) for v in x[:60]]
        if len(x) > 60:
            out.append("... %d more" % (len(x) - 60))
        return out
    try:
        import pandas as pd
        if isinstance(x, pd.DataFrame):
            return {"DataFrame": list(x.shape), "columns": [str(c) for c in x.columns][:30],
                    "head": jsonable(x.head(4).to_dict("records"), depth + 1)}
        if isinstance(x, pd.Series):
            return jsonable(x.to_numpy(), depth + 1)
    except Exception:
        pass
    return str(x)[:300]


def load_known_findings(prop):
    """open known findings for a property: {key: text}.  The file is never written at run time."""
    res = {}
    path = os.path.join(VERIF, "KNOWN_FINDINGS.txt")
    if not os.path.exists(path):
        return res
    for line in open(path):
        line = line.strip()
        if not line.startswith("open:"):
            continue
        toks = line[5:].split()
        kv = dict(t.split("=", 1) for t in toks[:2] if "=" in t)
        if kv.get("property") == prop and "key" in kv:
            res[kv["key"]] = " ".join(toks[2:])
    return res


class Ctx:
    """Per-shard observation state.  All counters are measured, never constants."""

    def __init__(self, prop, tier, seed, shard=0, nshards=1, repo="/repo", replaying=False):
        self.prop, self.tier, self.seed, self.shard, self.nshards = prop, tier, int(seed), shard, nshards
        self.repo = repo
        self.replaying = replaying
        self.mon = collections.OrderedDict()
        self.classes = collections.Counter()
        self.evaluations = 0
        self.digests = set()
        self.samples = []
        self.violations = []           # list of dicts (capped), total in n_violations
        self.n_violations = 0
        self.known = collections.Counter()
        self.known_text = {}
        self.harness_errors = []
        self.cur = None
        self.extra = {}
        self.tracer = None
        self.notes = []
        self.open_findings = load_known_findings(prop)
        self.active = True             # call monitors judge only while True
        self._case_violated = False
        self.scratch = None

    # ---- seeding -------------------------------------------------------------------------------
    def rng(self, i, stream=0):
        import numpy as np
        return np.random.default_rng([self.seed & 0xFFFFFFFF, _h64(self.prop, self.tier) & 0xFFFFFFFF, int(i), int(stream)])

    # ---- cases ---------------------------------------------------------------------------------
    def begin_case(self, i, cls, case, nontrivial):
        self.cur = {"index": i, "cls": cls, "summary": jsonable(case.get("summary"))}
        self._case_violated = False
        self.evaluations += 1
        self.classes[cls] += 1
        if nontrivial:
            d = hashlib.sha1(json.dumps(self.cur["summary"], sort_keys=True, default=str).encode()).hexdigest()[:16]
            self.digests.add(d)
        if len(self.samples) < MAX_SAMPLES and nontrivial:
            self.samples.append({"case": i, "class": cls, "inputs": self.cur["summary"]})

    def _m(self, name):
        if name not in self.mon:
            self.mon[name] = {"evals": 0, "out_of_domain": 0, "violations": 0, "known": 0}
        return self.mon[name]

    def declare(self, *names):
        for n in names:
            self._m(n)

    def ood(self, name):
        self._m(name)["out_of_domain"] += 1

    def check(self, name, ok, witness=None, key=None):
        """One in-domain evaluation of monitor `name`.  Records and returns `ok`; never raises."""
        m = self._m(name)
        m["evals"] += 1
        try:
            ok = bool(ok)
        except Exception:
            ok = False
        if ok:
            return True
        if key is not None and key in self.open_findings:
            m["known"] += 1
            self.known[key] += 1
            if key not in self.known_text:
                self.known_text[key] = {"monitor": name, "witness": jsonable(witness), "case": dict(self.cur or {})}
            return False
        m["violations"] += 1
        self.n_violations += 1
        first_in_case = not self._case_violated
        self._case_violated = True
        if first_in_case and len(self.violations) < MAX_WITNESSES:
            v = {"property": self.prop, "tier": self.tier, "seed": self.seed, "shard": self.shard,
                 "nshards": self.nshards, "case": dict(self.cur or {}), "monitor": name,
                 "witness": jsonable(witness), "unlisted_key": key}
            if not self.replaying:
                v["replay"] = self._write_replay(v)
            self.violations.append(v)
        return False

    def call(self, label, fn, *a, **k):
        """Invoke real cryoCAT code for an in-domain case: an exception is a violation (the property says the
        operation yields a result).  Returns (ok, result)."""
        known_key = k.pop("_key", None)
        try:
            r = fn(*a, **k)
        except HarnessError:
            raise
        except Exception as e:
            tb = traceback.format_exc().strip().splitlines()
            self.check("completes:" + label, False,
                       {"exception": type(e).__name__ + ": " + str(e)[:300], "where": tb[-6:]}, key=known_key)
            return False, None
        self.check("completes:" + label, True)
        return True, r

    def harness_error(self, where, exc=None):
        msg = where + ((": " + type(exc).__name__ + ": " + str(exc)[:300]) if exc is not None else "")
        tb = traceback.format_exc().strip().splitlines()[-8:] if exc is not None else []
        self.harness_errors.append({"where": msg, "case": dict(self.cur or {}), "tb": tb})

    def _write_replay(self, v):
        d = os.path.join(OUT, "replay" if os.path.abspath(self.repo) == "/repo" else "replay_scratch")
        os.makedirs(d, exist_ok=True)
        idx = (v["case"] or {}).get("index", "x")
        p = os.path.join(d, "%s_%s_s%d_c%s_%s.json" % (self.prop, self.tier, self.seed, idx,
                                                     hashlib.sha1(v["monitor"].encode()).hexdigest()[:6]))
        with open(p, "w") as f:
            json.dump(v, f, indent=1, default=str)
        return p

    # ---- result --------------------------------------------------------------------------------
    def result(self):
        return {"prop": self.prop, "tier": self.tier, "seed": self.seed, "shard": self.shard,
                "evaluations": self.evaluations, "digests": sorted(self.digests), "classes": dict(self.classes),
                "samples": self.samples, "monitors": self.mon, "violations": self.violations,
                "n_violations": self.n_violations, "known": dict(self.known), "known_text": self.known_text,
                "harness_errors": self.harness_errors[:10], "n_harness_errors": len(self.harness_errors),
                "extra": self.extra, "anchors": self.tracer.report() if self.tracer else {}, "notes": self.notes}


# ------------------------------------------------------------------------------------------------
def import_cryocat(repo):
    """Import cryoCAT from the working tree at `repo` (no build step; sources are read at run time)."""
    repo = os.path.abspath(repo)
    if repo in sys.path:
        sys.path.remove(repo)
    sys.path.insert(0, repo)
    deps = os.path.join(VERIF, ".deps")
    if os.path.isdir(deps) and deps not in sys.path:
        sys.path.append(deps)      # appended: may never shadow /venv packages
    import warnings
    warnings.filterwarnings("ignore")
    import cryocat
    got = os.path.dirname(os.path.abspath(cryocat.__file__))
    if got != os.path.join(repo, "cryocat"):
        raise HarnessError("cryocat imported from %s, expected %s" % (got, repo))
    return cryocat


def load_prop(prop):
    return importlib.import_module("vmon.props." + prop.lower())


def case_indices(n_cases, shard, nshards):
    return [i for i in range(n_cases) if i % nshards == shard]


def run_shard(prop, tier, seed, shard, nshards, repo, only_case=None):
    """Executed inside a child process: returns the Ctx result dict."""
    import faulthandler
    faulthandler.enable()
    mod = load_prop(prop)
    plan = mod.plan(tier)
    ctx = Ctx(prop, tier, seed, shard, nshards, repo, replaying=only_case is not None)
    old_cwd = os.getcwd()
    scratch = tempfile.mkdtemp(prefix="vmon_%s_" % prop)
    ctx.scratch = scratch
    os.chdir(scratch)
    try:
        import_cryocat(repo)
        try:
            mod.setup(ctx)
        except Exception as e:
            ctx.harness_error("setup", e)
            return ctx.result()
        classes = plan["classes"]
        idxs = [only_case] if only_case is not None else case_indices(plan["n_cases"], shard, nshards)
        for i in idxs:
            if isinstance(i, str):      # extra:<name> replay
                continue
            cls = classes[i % len(classes)]
            try:
                ctx.active = False
                case = mod.gen(ctx, i, cls)
                nt = bool(mod.nontrivial(case))
            except Exception as e:
                ctx.cur = {"index": i, "cls": cls}
                ctx.harness_error("gen", e)
                continue
            ctx.begin_case(i, cls, case, nt)
            ctx.active = True
            try:
                mod.run_case(ctx, case)
            except HarnessError as e:
                ctx.harness_error("run_case", e)
            except Exception as e:
                ctx.harness_error("run_case(oracle)", e)
            finally:
                ctx.active = False
        if hasattr(mod, "extra") and (only_case is None and shard == 0 or isinstance(only_case, str)):
            ctx.cur = {"index": "extra", "cls": "exhaustive"}
            ctx._case_violated = False
            ctx.active = True
            try:
                mod.extra(ctx)
            except Exception as e:
                ctx.harness_error("extra", e)
            ctx.active = False
        if hasattr(mod, "teardown"):
            try:
                mod.teardown(ctx)
            except Exception as e:
                ctx.harness_error("teardown", e)
        return ctx.result()
    finally:
        os.chdir(old_cwd)
        shutil.rmtree(scratch, ignore_errors=True)


# ------------------------------------------------------------------------------------------------
def _merge(results):
    tot = {"evaluations": 0, "digests": set(), "classes": collections.Counter(), "samples": [], "monitors": {},
           "violations": [], "n_violations": 0, "known": collections.Counter(), "known_text": {},
           "harness_errors": [], "n_harness_errors": 0, "extra": {}, "anchors": {}, "notes": []}
    for r in results:
        tot["evaluations"] += r["evaluations"]
        tot["digests"].update(r["digests"])
        tot["classes"].update(r["classes"])
        for s in r["samples"]:
            if len(tot["samples"]) < MAX_SAMPLES:
                tot["samples"].append(s)
        for n, m in r["monitors"].items():
            t = tot["monitors"].setdefault(n, {"evals": 0, "out_of_domain": 0, "violations": 0, "known": 0})
            for k in t:
                t[k] += m.get(k, 0)
        tot["violations"] += r["violations"]
        tot["n_violations"] += r["n_violations"]
        tot["known"].update(r["known"])
        for k, v in r["known_text"].items():
            tot["known_text"].setdefault(k, v)
        tot["harness_errors"] += r["harness_errors"]
        tot["n_harness_errors"] += r["n_harness_errors"]
        for k, v in r["extra"].items():
            if isinstance(v, (int, float)) and not isinstance(v, bool) and isinstance(tot["extra"].get(k), (int, float)):
                tot["extra"][k] += v
            else:
                tot["extra"].setdefault(k, v)
        for a, rep in r["anchors"].items():
            t = tot["anchors"].setdefault(a, {"calls": 0, "lines_total": rep["lines_total"], "lines_hit": set(),
                                              "branches": collections.Counter()})
            t["calls"] += rep["calls"]
            t["lines_hit"].update(rep["lines_hit"])
            t["branches"].update(rep["branches"])
            for b in rep["branches"]:
                t["branches"].setdefault(b, 0)
        tot["notes"] += [n for n in r["notes"] if n not in tot["notes"]]
    for a, t in tot["anchors"].items():
        t["lines_hit"] = len(t["lines_hit"])
        t["branches"] = dict(t["branches"])
    return tot


def main_check(prop, tier, seed, repo, replay=None, jobs=None):
    t0 = time.time()
    mod = load_prop(prop)
    plan = mod.plan(tier)
    nshards = plan.get("shards", 1)
    if jobs:
        nshards = max(1, min(nshards, jobs))
    timeout = plan.get("timeout_s", 900 if tier == "quick" else 3600)
    shard_dir = os.path.join(OUT, "shards", "%s_%d" % (prop, os.getpid()))
    os.makedirs(shard_dir, exist_ok=True)
    inconclusive = []
    results = []
    if replay:
        rp = json.load(open(replay))
        if rp["property"] != prop:
            raise SystemExit("replay file is for %s" % rp["property"])
        tier, seed = rp["tier"], rp["seed"]
        specs = [(rp["shard"], rp["nshards"], rp["case"]["index"])]
    else:
        specs = [(k, nshards, None) for k in range(nshards)]
    procs = []
    env = dict(os.environ)
    env["PYTHONHASHSEED"] = "0"
    env["PYTHONPATH"] = VERIF
    env.setdefault("MPLBACKEND", "Agg")
    for k in ("OPENBLAS_NUM_THREADS", "OMP_NUM_THREADS", "MKL_NUM_THREADS"):
        env.setdefault(k, "1")         # shards are the unit of parallelism; threaded BLAS thrashes on a loaded machine
    env.setdefault("NUMBA_CACHE_DIR", os.path.join(OUT, "numba_cache"))
    env.update(plan.get("env", {}))
    for (k, n, only) in specs:
        outp = os.path.join(shard_dir, "%s_%s_%d_%d.json" % (prop, tier, seed, k))
        if os.path.exists(outp):
            os.remove(outp)
        cmd = [sys.executable, "-m", "vmon.child", prop, tier, str(seed), str(k), str(n), repo, outp]
        if only is not None:
            cmd.append(str(only))
        logp = outp[:-5] + ".log"
        procs.append((k, outp, logp, subprocess.Popen(cmd, cwd=VERIF, env=env, stdout=open(logp, "w"),
                                                     stderr=subprocess.STDOUT)))
    deadline = time.time() + timeout
    for k, outp, logp, p in procs:
        try:
            p.wait(timeout=max(1, deadline - time.time()))
        except subprocess.TimeoutExpired:
            p.kill()
            p.wait()
            inconclusive.append("shard %d exceeded the %ds watchdog" % (k, timeout))
            continue
        if not os.path.exists(outp):
            tail = open(logp).read()[-600:].replace("\n", " | ")
            inconclusive.append("shard %d died (rc=%s): %s" % (k, p.returncode, tail))
            continue
        results.append(json.load(open(outp)))
    ride = None
    if tier == "thorough" and not replay and plan.get("ridealong", True) and not os.environ.get("VERIF_NO_RIDEALONG"):
        ride = run_ridealong(prop, seed, repo)
        if ride.get("result"):
            rr = ride["result"]
            rr["monitors"] = {"ridealong:" + k: v for k, v in rr["monitors"].items() if not k.startswith("completes:")}
            rr["evaluations"], rr["digests"], rr["classes"], rr["samples"], rr["anchors"] = 0, [], {}, [], {}
            rr["extra"] = {"ridealong_pytest": ride.get("pytest_tail")}
            results.append(rr)
        else:
            inconclusive.append("ride-along workload did not produce a result: %s" % ride.get("error"))
    tot = _merge(results)
    if not inconclusive and not os.environ.get("VERIF_KEEP_SHARDS"):
        shutil.rmtree(shard_dir, ignore_errors=True)
    # ---- verdict -------------------------------------------------------------------------------
    if tot["n_harness_errors"]:
        inconclusive.append("%d harness errors, first: %s" % (tot["n_harness_errors"],
                                                             json.dumps(tot["harness_errors"][0])[:700]))
    if not replay:
        for mname, need in plan.get("min_evals", {}).items():
            got = tot["monitors"].get(mname, {}).get("evals", 0)
            # the modules state what they measured on the current tree (75-90% of it); the purpose of the floor is to notice a
            # BLIND monitor, not to pin cryoCAT's internal call structure (a refactoring that stops routing one function
            # through another changes how often a call monitor is reached), so half of the stated figure is required
            need = max(1, int(need * 0.5))
            if got < need:
                inconclusive.append("monitor %s reached %d in-domain evaluations (< %d)" % (mname, got, need))
        for key, need in plan.get("min_known", {}).items():
            if key in load_known_findings(prop) and tot["known"].get(key, 0) < need:
                # informational only: a tree in which the finding has been repaired must still exit 0
                tot["notes"].append("open known finding %s was observed %d times (< %d expected on the unrepaired tree)"
                                    % (key, tot["known"].get(key, 0), need))
        for c in plan["classes"]:
            if tot["classes"].get(c, 0) == 0:
                inconclusive.append("input class %s never produced" % c)
        for a, need in plan.get("min_anchor_calls", {}).items():
            if a not in tot["anchors"]:
                # the anchor could not be traced in this tree (no Python code object behind the public name any more, e.g. it became
                # an alias or a compiled function): the call monitors' own floors (min_evals) still decide whether it was reached
                tot["notes"].append("anchor %s not traceable in this tree: call floor not applied" % a)
                continue
            need = max(1, int(need * 0.5))
            if tot["anchors"].get(a, {}).get("calls", 0) < need:
                inconclusive.append("anchor %s observed %d calls (< %d)" % (a, tot["anchors"].get(a, {}).get("calls", 0), need))
    wall = time.time() - t0
    if not replay and not os.environ.get("VERIF_NO_EVIDENCE"):
        write_evidence(prop, tier, seed, mod, plan, tot, wall, inconclusive, scratch_repo=(os.path.abspath(repo) != "/repo"))
    for key, n in sorted(tot["known"].items()):
        open_f = load_known_findings(prop)
        print("KNOWN-FINDING: property=%s key=%s %s (observed %d times this run)" % (prop, key, open_f.get(key, ""), n))
    for v in tot["violations"][:8]:
        print("VIOLATION property=%s replay=%s" % (prop, v.get("replay", replay)))
        print("   monitor=%s class=%s witness=%s" % (v["monitor"], v["case"].get("cls"), json.dumps(v["witness"], default=str)[:600]))
    summary = "%s tier=%s seed=%d cases=%d distinct_nontrivial=%d monitors=%d evals=%d violations=%d known=%d wall=%.1fs" % (
        prop, tier, seed, tot["evaluations"], len(tot["digests"]), len(tot["monitors"]),
        sum(m["evals"] for m in tot["monitors"].values()), tot["n_violations"], sum(tot["known"].values()), wall)
    fired = sorted(k for k, m in tot["monitors"].items() if m["violations"])
    if fired:
        print("MONITORS-FIRED: " + ",".join("%s(%d)" % (k, tot["monitors"][k]["violations"]) for k in fired))
    if tot["n_violations"]:
        print("RESULT violated " + summary)
        return 1
    if inconclusive:
        for r in inconclusive:
            print("INCONCLUSIVE property=%s reason=%s" % (prop, r))
        print("RESULT inconclusive " + summary)
        return 2
    print("RESULT held-on-observed " + summary)
    return 0


def run_ridealong(prop, seed, repo):
    """cryoCAT's own tests, on a scratch copy outside /repo and /verif, with this property's call monitors attached."""
    td = tempfile.mkdtemp(prefix="vride_%s_" % prop)
    try:
        subprocess.check_call(["rsync", "-a", "--exclude", ".git", "--exclude", "__pycache__", repo.rstrip("/") + "/", td + "/"])
        if not os.path.isdir(os.path.join(td, "tests")):      # a scratch tree holding only cryocat/: borrow the tests of /repo
            subprocess.check_call(["rsync", "-a", "--exclude", ".git", "--exclude", "__pycache__", "--exclude", "cryocat", "/repo/", td + "/"])
        outd = os.path.join(td, "_vride")
        os.makedirs(outd)
        env = dict(os.environ, PYTHONPATH=VERIF, VMON_RIDE_PROPS=prop, VMON_RIDE_OUT=outd, VERIF_SEED=str(seed), PYTHONHASHSEED="0", MPLBACKEND="Agg")
        p = subprocess.run([sys.executable, "-m", "pytest", "-q", "-p", "no:cacheprovider", "-p", "vmon.ridealong", "--timeout=900",
                            "--continue-on-collection-errors", "-x" if False else "-q"], cwd=td, env=env, stdout=subprocess.PIPE,
                           stderr=subprocess.STDOUT, text=True, timeout=1800)
        tail = p.stdout.strip().splitlines()[-1:] if p.stdout.strip() else []
        rp = os.path.join(outd, "ride_%s.json" % prop)
        if not os.path.exists(rp):
            return {"error": "no ride result; pytest said: %s" % (p.stdout[-400:],)}
        return {"result": json.load(open(rp)), "pytest_tail": tail}
    except Exception as e:
        return {"error": "%s: %s" % (type(e).__name__, str(e)[:300])}
    finally:
        shutil.rmtree(td, ignore_errors=True)


def write_evidence(prop, tier, seed, mod, plan, tot, wall, inconclusive, scratch_repo=False):
    evdir = os.path.join(VERIF, "evidence") if not scratch_repo else os.path.join(OUT, "evidence_scratch", str(os.getpid()))
    os.makedirs(evdir, exist_ok=True)
    ev = {
        "property_id": prop, "tier": tier, "seed": int(seed), "level": "exploration",
        "coverage": {
            "evaluations": int(tot["evaluations"]),
            "distinct_nontrivial": len(tot["digests"]),
            "rule": mod.RULE,
            "samples": tot["samples"],
            "monitor_evaluations": int(sum(m["evals"] for m in tot["monitors"].values())),
            "monitors": tot["monitors"],
            "classes_seen": dict(tot["classes"]),
            "anchors": tot["anchors"],
            "known_findings_seen": dict(tot["known"]),
            "observed": tot["extra"],
            "exhaustive": False,
            "verdict": "violated" if tot["n_violations"] else ("inconclusive" if inconclusive else "held on what was observed"),
            "inconclusive_reasons": inconclusive,
            "shards": plan.get("shards", 1),
            "notes": tot["notes"],
        },
        "assumptions": list(getattr(mod, "ASSUMPTIONS", [])),
        "wall_s": round(wall, 2),
        "violations": int(tot["n_violations"]),
    }
    p = os.path.join(evdir, prop + ".json")
    tmp = p + ".tmp"
    with open(tmp, "w") as f:
        json.dump(ev, f, indent=1, default=str)
    os.replace(tmp, p)
