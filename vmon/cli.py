import argparse
import os
import sys

from vmon import core


def main():
    ap = argparse.ArgumentParser()
    ap.add_argument("prop")
    ap.add_argument("--tier", default=os.environ.get("VERIF_TIER", "quick"), choices=["quick", "thorough"])
    ap.add_argument("--seed", type=int, default=int(os.environ.get("VERIF_SEED", "0") or 0))
    ap.add_argument("--replay")
    ap.add_argument("--repo", default=os.environ.get("VERIF_REPO", "/repo"))
    ap.add_argument("--jobs", type=int, default=int(os.environ.get("VERIF_JOBS", "0") or 0))
    a = ap.parse_args()
    sys.exit(core.main_check(a.prop.upper(), a.tier, a.seed, os.path.abspath(a.repo), replay=a.replay, jobs=a.jobs))


main()
