#!/venv/bin/python
"""Apply each realistic property-breaking edit to a scratch copy of cryoCAT (outside /repo and /verif) and
confirm that the quick check of its property fires (or stays silent for negative controls).

usage: run_mutants.py [--prop C01[,C02]] [--id name] [--pytest] [--jobs N] [--tier quick]
--pytest additionally runs cryoCAT's pinned suite on the mutated full copy and requires the 307 stable tests to pass.
"""
import argparse, concurrent.futures as cf, json, os, shutil, subprocess, sys, tempfile, time

VERIF = os.path.dirname(os.path.dirname(os.path.abspath(__file__)))


def run_one(m, args):
    td = tempfile.mkdtemp(prefix="vmut_")
    try:
        if args.pytest:
            subprocess.check_call(["rsync", "-a", "--exclude", ".git", "--exclude", "__pycache__", "/repo/", td + "/"])
        else:
            shutil.copytree("/repo/cryocat", os.path.join(td, "cryocat"), ignore=shutil.ignore_patterns("__pycache__"))
        edits = m.get("edits") or [m]
        for e in edits:
            fp = os.path.join(td, e["file"])
            s = open(fp).read()
            cnt = s.count(e["old"])
            want = e.get("count", 1)
            if cnt != want:
                return dict(id=m["id"], prop=m["prop"], status="STALE", detail="old text found %d times (want %d)" % (cnt, want))
            s = s.replace(e["old"], e["new"])
            open(fp, "w").write(s)
        t0 = time.time()
        env = dict(os.environ, VERIF_SEED=str(args.seed))
        p = subprocess.run([os.path.join(VERIF, "check"), m["prop"], "--tier", args.tier, "--repo", td], cwd=VERIF,
                           stdout=subprocess.PIPE, stderr=subprocess.STDOUT, text=True, env=env)
        fired = p.returncode == 1 and "VIOLATION property=%s" % m["prop"] in p.stdout
        lines = [l for l in p.stdout.splitlines() if l.startswith(("VIOLATION", "   monitor", "INCONCLUSIVE", "RESULT"))]
        res = dict(id=m["id"], prop=m["prop"], rc=p.returncode, fired=fired, wall=round(time.time() - t0, 1),
                   monitors=([l.split(": ", 1)[1] for l in p.stdout.splitlines() if l.startswith("MONITORS-FIRED")] or [""])[0].split(","),
                   tail=lines[-1] if lines else p.stdout[-300:])
        expect = m.get("expect", "fire")
        res["status"] = "OK" if (fired and expect == "fire") or (p.returncode == 0 and expect == "silent") else (
            "INCONCLUSIVE" if p.returncode == 2 else "MISSED" if expect == "fire" else "FALSE-ALARM?")
        if args.pytest:
            q = subprocess.run([sys.executable, os.path.join(VERIF, "tools", "baseline_check.py"), "--repo", td],
                               stdout=subprocess.PIPE, stderr=subprocess.STDOUT, text=True)
            res["pytest_stable_ok"] = q.returncode == 0
            if q.returncode != 0:
                res["pytest_missing"] = [l.strip() for l in q.stdout.splitlines() if "MISSING" in l][:5]
        return res
    finally:
        shutil.rmtree(td, ignore_errors=True)


def main():
    ap = argparse.ArgumentParser()
    ap.add_argument("--prop"); ap.add_argument("--id"); ap.add_argument("--pytest", action="store_true")
    ap.add_argument("--jobs", type=int, default=8); ap.add_argument("--tier", default="quick"); ap.add_argument("--seed", type=int, default=0)
    ap.add_argument("--out", default=os.path.join(VERIF, "selftest", "last_run.json"))
    args = ap.parse_args()
    import glob
    muts = []
    for f in sorted(glob.glob(os.path.join(VERIF, "selftest", "mutants.d", "*.json"))):
        muts += json.load(open(f))
    if args.prop:
        muts = [m for m in muts if m["prop"] in args.prop.split(",")]
    if args.id:
        muts = [m for m in muts if m["id"] in args.id.split(",")]
    res = []
    with cf.ThreadPoolExecutor(args.jobs) as ex:
        for r in ex.map(lambda m: run_one(m, args), muts):
            res.append(r)
            print("%-12s %-4s %-34s rc=%s %5ss %s %s" % (r["status"], r["prop"], r["id"], r.get("rc"), r.get("wall"),
                                                    ",".join(r.get("monitors", []))[:80],
                                                    "" if r.get("pytest_stable_ok", True) else "PYTEST-BROKEN " + str(r.get("pytest_missing"))), flush=True)
    if not (args.prop or args.id):
        json.dump(res, open(args.out, "w"), indent=1)
    bad = [r for r in res if r["status"] != "OK" or not r.get("pytest_stable_ok", True)]
    print("%d mutants, %d not OK" % (len(res), len(bad)))
    sys.exit(1 if bad else 0)


main()
